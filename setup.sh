#!/bin/bash
# Offline build of everything the checks share. Checks rebuild /repo-dependent parts themselves.
cd "$(dirname "$(readlink -f "$0")")" || exit 2
export CARGO_NET_OFFLINE=true
python3 - <<'PY'
from vlib import core, tools, apidriver
core.build_lalrpop()
tools.build()
apidriver.build()
PY
