// Oracle-side helpers (DESIGN 1.3): reference lexer by full-match tests with the `regex` crate,
// regex intersection by a product of anchored dense DFAs, Rust token-stream comparison with
// proc_macro2, and a driver for the *real* lalrpop_util::lexer::MatcherBuilder (subject side of
// the "extracted" tier).  Line protocol: one JSON request per stdin line, one JSON reply per line.
use regex_automata::dfa::{dense, Automaton};
use regex_automata::util::syntax::Config as SyntaxConfig;
use regex_automata::{Anchored, Input};
use serde_json::{json, Value};
use std::collections::{HashMap, VecDeque};
use std::io::{BufRead, Write};
use std::str::FromStr;

enum Pat {
    Lit(String),
    Re(regex::Regex),
}

fn full_len(p: &Pat, s: &str) -> Option<usize> {
    // longest n (at a char boundary) such that s[..n] fully matches p
    match p {
        Pat::Lit(l) => {
            if s.starts_with(l.as_str()) {
                Some(l.len())
            } else {
                None
            }
        }
        Pat::Re(r) => {
            let mut ends: Vec<usize> = s.char_indices().map(|(i, _)| i).collect();
            ends.push(s.len());
            for &n in ends.iter().rev() {
                if r.is_match(&s[..n]) {
                    return Some(n);
                }
            }
            None
        }
    }
}

fn compile(v: &Value) -> Result<Vec<(Pat, i64, bool)>, String> {
    let mut out = vec![];
    for p in v.as_array().unwrap() {
        let src = p["src"].as_str().unwrap();
        let pat = if p["kind"] == "lit" {
            Pat::Lit(src.to_string())
        } else {
            Pat::Re(regex::Regex::new(&format!("^(?:{})$", src)).map_err(|e| e.to_string())?)
        };
        out.push((pat, p["rank"].as_i64().unwrap(), p["skip"].as_bool().unwrap_or(false)));
    }
    Ok(out)
}

fn lexref(req: &Value) -> Value {
    let pats = match compile(&req["pats"]) {
        Ok(p) => p,
        Err(e) => return json!({"error": e}),
    };
    let mut results = vec![];
    for t in req["texts"].as_array().unwrap() {
        let text = t.as_str().unwrap();
        let mut o = 0usize;
        let mut toks = vec![];
        let mut err: Value = Value::Null;
        let mut tie = false;
        while o < text.len() {
            let rest = &text[o..];
            let mut best: Option<usize> = None;
            let ms: Vec<Option<usize>> = pats.iter().map(|(p, _, _)| full_len(p, rest)).collect();
            for m in ms.iter().flatten() {
                if best.map_or(true, |b| *m > b) {
                    best = Some(*m);
                }
            }
            match best {
                None | Some(0) => {
                    err = json!(o);
                    break;
                }
                Some(n) => {
                    let mut win: Option<usize> = None;
                    let mut win_rank = i64::MIN;
                    let mut cnt = 0;
                    for (i, m) in ms.iter().enumerate() {
                        if *m == Some(n) {
                            let r = pats[i].1;
                            if r > win_rank {
                                win_rank = r;
                                win = Some(i);
                                cnt = 1;
                            } else if r == win_rank {
                                cnt += 1;
                            }
                        }
                    }
                    if cnt > 1 {
                        tie = true;
                        break;
                    }
                    let w = win.unwrap();
                    if !pats[w].2 {
                        toks.push(json!([o, w, o + n]));
                    }
                    o += n;
                }
            }
        }
        results.push(json!({"toks": toks, "err": err, "tie": tie}));
    }
    json!({"results": results})
}

fn fullmatch(req: &Value) -> Value {
    let r = match regex::Regex::new(&format!("^(?:{})$", req["re"].as_str().unwrap())) {
        Ok(r) => r,
        Err(e) => return json!({"error": e.to_string()}),
    };
    let v: Vec<bool> = req["strings"].as_array().unwrap().iter().map(|s| r.is_match(s.as_str().unwrap())).collect();
    json!({"matches": v})
}

fn build_dense(src: &str, lit: bool) -> Result<dense::DFA<Vec<u32>>, String> {
    let pat = if lit { regex_syntax::escape(src) } else { src.to_string() };
    dense::Builder::new()
        .configure(dense::Config::new().match_kind(regex_automata::MatchKind::All).start_kind(regex_automata::dfa::StartKind::Anchored).dfa_size_limit(Some(64 << 20)).determinize_size_limit(Some(64 << 20)))
        .syntax(SyntaxConfig::new().unicode(true).utf8(true))
        .build(&pat)
        .map_err(|e| e.to_string())
}

fn intersect(req: &Value) -> Value {
    let a = match build_dense(req["a"]["src"].as_str().unwrap(), req["a"]["kind"] == "lit") {
        Ok(d) => d,
        Err(e) => return json!({"error": e}),
    };
    let b = match build_dense(req["b"]["src"].as_str().unwrap(), req["b"]["kind"] == "lit") {
        Ok(d) => d,
        Err(e) => return json!({"error": e}),
    };
    // optional: patterns of higher precedence; a common string only counts if none of them
    // matches it entirely (then the runtime would pick that one and there is no tie)
    let mut minus = vec![];
    if let Some(ms) = req.get("minus").and_then(|m| m.as_array()) {
        for m in ms {
            match build_dense(m["src"].as_str().unwrap(), m["kind"] == "lit") {
                Ok(d) => minus.push(d),
                Err(e) => return json!({"error": e}),
            }
        }
    }
    if !minus.is_empty() {
        return intersect_minus(&a, &b, &minus);
    }
    let inp = Input::new("").anchored(Anchored::Yes);
    let sa = a.start_state_forward(&inp).unwrap();
    let sb = b.start_state_forward(&inp).unwrap();
    let mut seen: HashMap<(u32, u32), Option<((u32, u32), u8)>> = HashMap::new();
    let key = |x: regex_automata::util::primitives::StateID, y: regex_automata::util::primitives::StateID| (x.as_u32(), y.as_u32());
    let mut q = VecDeque::new();
    seen.insert(key(sa, sb), None);
    q.push_back((sa, sb));
    let mut empty_overlap = false;
    let mut witness: Option<Vec<u8>> = None;
    let mut explored = 0usize;
    while let Some((x, y)) = q.pop_front() {
        explored += 1;
        if explored > 2_000_000 {
            return json!({"error": "product too large"});
        }
        let ex = a.next_eoi_state(x);
        let ey = b.next_eoi_state(y);
        if a.is_match_state(ex) && b.is_match_state(ey) {
            // reconstruct
            let mut w = vec![];
            let mut cur = key(x, y);
            while let Some(Some((prev, byte))) = seen.get(&cur) {
                w.push(*byte);
                cur = *prev;
            }
            w.reverse();
            if w.is_empty() {
                empty_overlap = true;
            } else {
                witness = Some(w);
                break;
            }
        }
        for byte in 0u16..256 {
            let byte = byte as u8;
            let nx = a.next_state(x, byte);
            let ny = b.next_state(y, byte);
            if a.is_dead_state(nx) || b.is_dead_state(ny) {
                continue;
            }
            let k = key(nx, ny);
            if !seen.contains_key(&k) {
                seen.insert(k, Some((key(x, y), byte)));
                q.push_back((nx, ny));
            }
        }
    }
    match witness {
        Some(w) => json!({"overlap": true, "witness": String::from_utf8_lossy(&w), "witness_hex": w.iter().map(|b| format!("{:02x}", b)).collect::<String>(), "empty_overlap": empty_overlap}),
        None => json!({"overlap": false, "empty_overlap": empty_overlap, "product_states": explored}),
    }
}

type D = dense::DFA<Vec<u32>>;

fn intersect_minus(a: &D, b: &D, minus: &[D]) -> Value {
    let inp = Input::new("").anchored(Anchored::Yes);
    let mut start = vec![a.start_state_forward(&inp).unwrap(), b.start_state_forward(&inp).unwrap()];
    for m in minus {
        start.push(m.start_state_forward(&inp).unwrap());
    }
    let all: Vec<&D> = std::iter::once(a).chain(std::iter::once(b)).chain(minus.iter()).collect();
    let keyof = |v: &Vec<regex_automata::util::primitives::StateID>| v.iter().map(|s| s.as_u32()).collect::<Vec<u32>>();
    let mut seen: HashMap<Vec<u32>, Option<(Vec<u32>, u8)>> = HashMap::new();
    let mut q = VecDeque::new();
    seen.insert(keyof(&start), None);
    q.push_back(start);
    let mut explored = 0usize;
    let mut empty_overlap = false;
    while let Some(st) = q.pop_front() {
        explored += 1;
        if explored > 1_000_000 {
            return json!({"error": "product too large"});
        }
        let ea = a.next_eoi_state(st[0]);
        let eb = b.next_eoi_state(st[1]);
        if a.is_match_state(ea) && b.is_match_state(eb) {
            let mut beaten = false;
            for (i, m) in minus.iter().enumerate() {
                if m.is_match_state(m.next_eoi_state(st[2 + i])) {
                    beaten = true;
                }
            }
            if !beaten {
                let mut w = vec![];
                let mut cur = keyof(&st);
                while let Some(Some((prev, byte))) = seen.get(&cur) {
                    w.push(*byte);
                    cur = prev.clone();
                }
                w.reverse();
                if w.is_empty() {
                    empty_overlap = true;
                } else {
                    return json!({"overlap": true, "witness": String::from_utf8_lossy(&w), "witness_hex": w.iter().map(|b| format!("{:02x}", b)).collect::<String>(), "empty_overlap": empty_overlap});
                }
            }
        }
        for byte in 0u16..256 {
            let byte = byte as u8;
            let na = a.next_state(st[0], byte);
            let nb = b.next_state(st[1], byte);
            if a.is_dead_state(na) || b.is_dead_state(nb) {
                continue;
            }
            let mut nx = vec![na, nb];
            for (i, m) in all.iter().enumerate().skip(2) {
                nx.push(m.next_state(st[i], byte));
            }
            let k = keyof(&nx);
            if !seen.contains_key(&k) {
                seen.insert(k, Some((keyof(&st), byte)));
                q.push_back(nx);
            }
        }
    }
    json!({"overlap": false, "empty_overlap": empty_overlap, "product_states": explored})
}

const OPS: &[&str] = &["<<=", ">>=", "...", "..=", "::", "->", "=>", "==", "!=", "<=", ">=", "&&", "||", "+=", "-=", "*=", "/=", "%=", "^=", "&=", "|=", "<<", ">>", ".."];

fn split_ops(run: &str, out: &mut Vec<String>) {
    // maximal munch over Rust's multi-character operators, as rustc's lexer would
    let cs: Vec<char> = run.chars().collect();
    let mut i = 0;
    while i < cs.len() {
        let mut matched = 1;
        for op in OPS {
            let oc: Vec<char> = op.chars().collect();
            if oc.len() > matched && i + oc.len() <= cs.len() && cs[i..i + oc.len()] == oc[..] {
                matched = oc.len();
            }
        }
        out.push(cs[i..i + matched].iter().collect());
        i += matched;
    }
}

fn flatten(ts: proc_macro2::TokenStream, out: &mut Vec<String>) {
    let mut run = String::new();
    let mut joint = false;
    for tt in ts {
        if let proc_macro2::TokenTree::Punct(p) = &tt {
            if p.as_char() != '\'' {
                if !joint && !run.is_empty() {
                    let r = std::mem::take(&mut run);
                    split_ops(&r, out);
                }
                run.push(p.as_char());
                joint = p.spacing() == proc_macro2::Spacing::Joint;
                continue;
            }
        }
        if !run.is_empty() {
            let r = std::mem::take(&mut run);
            split_ops(&r, out);
        }
        joint = false;
        match tt {
            proc_macro2::TokenTree::Group(g) => {
                let (o, c) = match g.delimiter() {
                    proc_macro2::Delimiter::Parenthesis => ("(", ")"),
                    proc_macro2::Delimiter::Brace => ("{", "}"),
                    proc_macro2::Delimiter::Bracket => ("[", "]"),
                    proc_macro2::Delimiter::None => ("", ""),
                };
                out.push(o.to_string());
                flatten(g.stream(), out);
                out.push(c.to_string());
            }
            proc_macro2::TokenTree::Punct(p) => out.push(p.as_char().to_string()),
            other => out.push(other.to_string()),
        }
    }
    if !run.is_empty() {
        split_ops(&run, out);
    }
}

fn tokens_of(src: &str) -> Result<Vec<String>, String> {
    let ts = proc_macro2::TokenStream::from_str(src).map_err(|e| e.to_string())?;
    let mut v = vec![];
    flatten(ts, &mut v);
    Ok(v)
}

fn strip_header(s: &str) -> String {
    // drop the two header lines (`// auto-generated: ...`, `// sha3: ...`): comments anyway
    s.to_string()
}

fn tokcmp(req: &Value) -> Value {
    let read = |k: &str| -> Result<String, String> {
        if let Some(p) = req.get(&format!("{}_path", k)).and_then(|v| v.as_str()) {
            std::fs::read_to_string(p).map_err(|e| e.to_string())
        } else {
            Ok(req[k].as_str().unwrap_or("").to_string())
        }
    };
    let a = match read("a") { Ok(s) => s, Err(e) => return json!({"error": e}) };
    let b = match read("b") { Ok(s) => s, Err(e) => return json!({"error": e}) };
    let ta = match tokens_of(&strip_header(&a)) { Ok(t) => t, Err(e) => return json!({"error": format!("a: {}", e)}) };
    let tb = match tokens_of(&strip_header(&b)) { Ok(t) => t, Err(e) => return json!({"error": format!("b: {}", e)}) };
    if ta == tb {
        return json!({"equal": true, "tokens": ta.len()});
    }
    let mut i = 0;
    while i < ta.len() && i < tb.len() && ta[i] == tb[i] {
        i += 1;
    }
    let ctx = |t: &Vec<String>| t[i.saturating_sub(6)..(i + 6).min(t.len())].join(" ");
    json!({"equal": false, "tokens_a": ta.len(), "tokens_b": tb.len(), "first_diff": i, "ctx_a": ctx(&ta), "ctx_b": ctx(&tb)})
}

fn tokens(req: &Value) -> Value {
    match tokens_of(req["src"].as_str().unwrap()) {
        Ok(t) => json!({"tokens": t}),
        Err(e) => json!({"error": e}),
    }
}

// The real runtime matcher on an extracted `__strs` table: subject side, not an oracle.
fn realmatch(req: &Value) -> Value {
    let strs: Vec<(String, bool)> = req["strs"].as_array().unwrap().iter().map(|p| (p[0].as_str().unwrap().to_string(), p[1].as_bool().unwrap())).collect();
    let mb = match lalrpop_util::lexer::MatcherBuilder::new(strs.iter().map(|(s, b)| (s.as_str(), *b))) {
        Ok(m) => m,
        Err(e) => return json!({"error": e.to_string()}),
    };
    let mut results = vec![];
    for t in req["texts"].as_array().unwrap() {
        let text = t.as_str().unwrap();
        let mut toks = vec![];
        let mut err = Value::Null;
        let mut n = 0usize;
        let mut stuck = false;
        let m: lalrpop_util::lexer::Matcher<'_, '_, ()> = mb.matcher(text);
        for item in m {
            n += 1;
            if n > text.len() + 2 {
                stuck = true;
                break;
            }
            match item {
                Ok((s, tok, e)) => toks.push(json!([s, tok.0, e])),
                Err(lalrpop_util::ParseError::InvalidToken { location }) => {
                    err = json!(location);
                    break;
                }
                Err(_) => {
                    err = json!(-1);
                    break;
                }
            }
        }
        results.push(json!({"toks": toks, "err": err, "stuck": stuck}));
    }
    json!({"results": results})
}

// C28: exhaustive check of the ParseError helpers over small domains against an independent
// re-statement of the documented behaviour.
fn expected_suffix(exp: &[String]) -> String {
    match exp.len() {
        0 => String::new(),
        1 => format!("\nExpected one of {}", exp[0]),
        n => format!("\nExpected one of {} or {}", exp[..n - 1].join(", "), exp[n - 1]),
    }
}

fn parseerr(_req: &Value) -> Value {
    use lalrpop_util::ParseError as PE;
    type E = PE<u32, String, String>;
    let locs = [0u32, 1, 7];
    let toks = ["a", "b"];
    let errs = ["x", "y"];
    let names = ["p", "q", "r", "s"];
    let mut values: Vec<E> = vec![];
    let mut exps: Vec<Vec<String>> = vec![];
    for n in 0..=4 {
        exps.push(names[..n].iter().map(|s| s.to_string()).collect());
    }
    for &l in &locs {
        values.push(PE::InvalidToken { location: l });
        for e in &exps {
            values.push(PE::UnrecognizedEof { location: l, expected: e.clone() });
        }
        for &r in &locs {
            for t in &toks {
                values.push(PE::ExtraToken { token: (l, t.to_string(), r) });
                for e in &exps {
                    values.push(PE::UnrecognizedToken { token: (l, t.to_string(), r), expected: e.clone() });
                }
            }
        }
    }
    for e in &errs {
        values.push(PE::User { error: e.to_string() });
    }
    let mut viol: Vec<Value> = vec![];
    let mut cases = 0usize;
    let f = |x: u32| x * 10 + 3;
    for v in &values {
        // map_location: every location, both span ends, start then end; rest untouched
        let calls = std::cell::RefCell::new(vec![]);
        let got = v.clone().map_location(|x| {
            calls.borrow_mut().push(x);
            f(x) as u64
        });
        let (want, want_calls): (PE<u64, String, String>, Vec<u32>) = match v {
            PE::InvalidToken { location } => (PE::InvalidToken { location: f(*location) as u64 }, vec![*location]),
            PE::UnrecognizedEof { location, expected } => (PE::UnrecognizedEof { location: f(*location) as u64, expected: expected.clone() }, vec![*location]),
            PE::UnrecognizedToken { token, expected } => (PE::UnrecognizedToken { token: (f(token.0) as u64, token.1.clone(), f(token.2) as u64), expected: expected.clone() }, vec![token.0, token.2]),
            PE::ExtraToken { token } => (PE::ExtraToken { token: (f(token.0) as u64, token.1.clone(), f(token.2) as u64) }, vec![token.0, token.2]),
            PE::User { error } => (PE::User { error: error.clone() }, vec![]),
        };
        cases += 1;
        if got != want || *calls.borrow() != want_calls {
            viol.push(json!({"op": "map_location", "value": format!("{:?}", v), "got": format!("{:?}", got), "want": format!("{:?}", want), "calls": format!("{:?}", calls.borrow()), "want_calls": format!("{:?}", want_calls)}));
        }
        // map_token
        let n = std::cell::Cell::new(0);
        let got = v.clone().map_token(|t| {
            n.set(n.get() + 1);
            format!("<{}>", t)
        });
        let (want, wn): (E, u32) = match v {
            PE::UnrecognizedToken { token, expected } => (PE::UnrecognizedToken { token: (token.0, format!("<{}>", token.1), token.2), expected: expected.clone() }, 1),
            PE::ExtraToken { token } => (PE::ExtraToken { token: (token.0, format!("<{}>", token.1), token.2) }, 1),
            other => (other.clone(), 0),
        };
        cases += 1;
        if got != want || n.get() != wn {
            viol.push(json!({"op": "map_token", "value": format!("{:?}", v), "got": format!("{:?}", got), "want": format!("{:?}", want), "calls": n.get()}));
        }
        // map_error
        let n = std::cell::Cell::new(0);
        let got = v.clone().map_error(|e| {
            n.set(n.get() + 1);
            e.len() as u8
        });
        let (want, wn): (PE<u32, String, u8>, u32) = match v {
            PE::InvalidToken { location } => (PE::InvalidToken { location: *location }, 0),
            PE::UnrecognizedEof { location, expected } => (PE::UnrecognizedEof { location: *location, expected: expected.clone() }, 0),
            PE::UnrecognizedToken { token, expected } => (PE::UnrecognizedToken { token: token.clone(), expected: expected.clone() }, 0),
            PE::ExtraToken { token } => (PE::ExtraToken { token: token.clone() }, 0),
            PE::User { error } => (PE::User { error: error.len() as u8 }, 1),
        };
        cases += 1;
        if got != want || n.get() != wn {
            viol.push(json!({"op": "map_error", "value": format!("{:?}", v), "got": format!("{:?}", got), "want": format!("{:?}", want)}));
        }
        // Display
        let got = v.to_string();
        let want = match v {
            PE::User { error } => error.clone(),
            PE::InvalidToken { location } => format!("Invalid token at {}", location),
            PE::UnrecognizedEof { location, expected } => format!("Unrecognized EOF found at {}{}", location, expected_suffix(expected)),
            PE::UnrecognizedToken { token, expected } => format!("Unrecognized token `{}` found at {}:{}{}", token.1, token.0, token.2, expected_suffix(expected)),
            PE::ExtraToken { token } => format!("Extra token {} found at {}:{}", token.1, token.0, token.2),
        };
        cases += 1;
        if got != want {
            viol.push(json!({"op": "display", "value": format!("{:?}", v), "got": got, "want": want}));
        }
    }
    for e in &errs {
        let got: E = PE::from(e.to_string());
        cases += 1;
        if got != (PE::User { error: e.to_string() }) {
            viol.push(json!({"op": "from", "got": format!("{:?}", got)}));
        }
    }
    json!({"values": values.len(), "cases": cases, "violations": viol})
}

fn main() {
    let stdin = std::io::stdin();
    let stdout = std::io::stdout();
    let mut out = std::io::BufWriter::new(stdout.lock());
    for line in stdin.lock().lines() {
        let line = line.unwrap();
        if line.trim().is_empty() {
            continue;
        }
        let req: Value = match serde_json::from_str(&line) {
            Ok(v) => v,
            Err(e) => {
                writeln!(out, "{}", json!({"error": format!("bad request: {}", e)})).unwrap();
                continue;
            }
        };
        let r = std::panic::catch_unwind(|| match req["op"].as_str().unwrap_or("") {
            "lexref" => lexref(&req),
            "fullmatch" => fullmatch(&req),
            "intersect" => intersect(&req),
            "tokcmp" => tokcmp(&req),
            "tokens" => tokens(&req),
            "realmatch" => realmatch(&req),
            "parseerr" => parseerr(&req),
            _ => json!({"error": "unknown op"}),
        });
        let r = r.unwrap_or_else(|_| json!({"error": "tool panicked"}));
        writeln!(out, "{}", r).unwrap();
        out.flush().unwrap();
    }
}
