// C27 subject: concurrent parses on SHARED parser values (built-in lexer and extern tokens),
// compared with a sequential baseline from fresh parsers.  Built natively, with
// -Zsanitizer=thread, and interpreted by Miri (reduced workload).
#![allow(clippy::all, unused_parens, dead_code, unused_imports)]
use std::sync::{Arc, Barrier};

#[derive(Clone, Debug, PartialEq)]
pub enum Tok {
    A,
    B,
    L,
    R,
    Num(u32),
}

#[rustfmt::skip]
mod lex { include!("lex.rs"); }
#[rustfmt::skip]
mod ext { include!("ext.rs"); }

fn assert_send_sync<T: Send + Sync>() {}

fn lex_inputs() -> Vec<String> {
    let mut v: Vec<String> = vec![
        "1+2*3", "(1+2)*3", "abc + λ12", "λλ(7)", "1 +", "", "1 $ 2", "ünï + 2*(3+4)", "((((1))))", "9*9*9*9*9*9*9*9*9*9*9*9",
        "a+b+c+d+e+f", "1 2", ")", "été*2", "  7  ",
    ].into_iter().map(String::from).collect();
    let mut long = String::new();
    for i in 0..60 {
        if i > 0 {
            long.push_str(if i % 3 == 0 { " * " } else { " + " });
        }
        long.push_str(&format!("(x{} - {})", i, i * 7));
    }
    v.push(long);
    v
}

fn ext_inputs() -> Vec<Vec<Tok>> {
    use Tok::*;
    vec![
        vec![], vec![A], vec![A, A, B, Num(3)], vec![L, A, R], vec![L, L, B, Num(1), R, A, R], vec![B, Num(13)], vec![A, B], vec![R],
        vec![L, A], vec![A, L, B, Num(13), R], vec![B, Num(7), B, Num(8), L, R],
    ]
}

fn run_lex(p: &lex::ExprParser, s: &str) -> String {
    format!("{:?}", p.parse(s))
}

fn run_ext(p: &ext::SParser, t: &[Tok]) -> String {
    let toks = t.iter().cloned().enumerate().map(|(i, t)| Ok::<_, String>((10 * i + 3, t, 10 * i + 7)));
    format!("{:?}", p.parse(toks))
}

fn main() {
    assert_send_sync::<lex::ExprParser>();
    assert_send_sync::<ext::SParser>();
    let small = cfg!(miri);
    let threads: usize = if small { 3 } else { std::env::var("C27_THREADS").ok().and_then(|s| s.parse().ok()).unwrap_or(16) };
    let rounds: usize = if small { 1 } else { std::env::var("C27_ROUNDS").ok().and_then(|s| s.parse().ok()).unwrap_or(120) };
    let mut li = lex_inputs();
    let mut ei = ext_inputs();
    if small {
        li.truncate(4);
        ei.truncate(4);
    }
    // sequential baseline: a fresh parser per input
    let lbase: Vec<String> = li.iter().map(|s| run_lex(&lex::ExprParser::new(), s)).collect();
    let ebase: Vec<String> = ei.iter().map(|t| run_ext(&ext::SParser::new(), t)).collect();
    // sequential reuse of one parser value
    let lp = Arc::new(lex::ExprParser::new());
    let ep = Arc::new(ext::SParser::new());
    let mut mismatches = 0usize;
    let mut parses = 0usize;
    let reuse = if small { 2 } else { 600 };
    for r in 0..reuse {
        for (i, s) in li.iter().enumerate() {
            if (i + r) % 3 == 0 || small {
                parses += 1;
                if run_lex(&lp, s) != lbase[i] {
                    mismatches += 1;
                }
            }
        }
    }
    // concurrent use of the shared values
    let barrier = Arc::new(Barrier::new(threads));
    let li = Arc::new(li);
    let ei = Arc::new(ei);
    let lbase = Arc::new(lbase);
    let ebase = Arc::new(ebase);
    let order = Arc::new(std::sync::Mutex::new(Vec::<usize>::new()));
    let mut hs = vec![];
    for t in 0..threads {
        let (lp, ep, li, ei, lbase, ebase, barrier, order) = (lp.clone(), ep.clone(), li.clone(), ei.clone(), lbase.clone(), ebase.clone(), barrier.clone(), order.clone());
        hs.push(std::thread::spawn(move || {
            let mut bad = vec![];
            let mut n = 0usize;
            barrier.wait();
            for r in 0..rounds {
                for k in 0..li.len() {
                    let i = (k * (t + 1) + r) % li.len();
                    n += 1;
                    let got = run_lex(&lp, &li[i]);
                    if got != lbase[i] {
                        bad.push(format!("lex thread {} input {:?}: {} != {}", t, li[i], got, lbase[i]));
                    }
                    if (k + t) % 5 == 0 {
                        std::thread::yield_now();
                    }
                }
                for k in 0..ei.len() {
                    let i = (k * (t + 2) + r) % ei.len();
                    n += 1;
                    let got = run_ext(&ep, &ei[i]);
                    if got != ebase[i] {
                        bad.push(format!("ext thread {} input {:?}: {} != {}", t, ei[i], got, ebase[i]));
                    }
                }
            }
            order.lock().unwrap().push(t);
            (n, bad)
        }));
    }
    let mut details = vec![];
    for h in hs {
        let (n, bad) = h.join().expect("worker panicked");
        parses += n;
        mismatches += bad.len();
        details.extend(bad.into_iter().take(3));
    }
    let ord = order.lock().unwrap().iter().map(|x| x.to_string()).collect::<Vec<_>>().join("-");
    println!("C27RESULT {{\"threads\":{},\"parses\":{},\"mismatches\":{},\"completion_order\":\"{}\",\"inputs\":{}}}", threads, parses, mismatches, ord, li.len() + ei.len());
    for d in details.iter().take(5) {
        println!("C27MISMATCH {}", d);
    }
    if mismatches > 0 {
        std::process::exit(1);
    }
}
