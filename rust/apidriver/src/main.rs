// Drives the public `lalrpop::Configuration` API exactly as a build script would (subject side).
// argv[1] = JSON request.  Prints `RESULT ok` | `RESULT err <message>` | `RESULT panic <message>`.
use serde_json::Value;

fn main() {
    let arg = std::env::args().nth(1).expect("request");
    let req: Value = serde_json::from_str(&std::fs::read_to_string(&arg).unwrap_or(arg.clone())).expect("json");
    if let Some(cwd) = req.get("cwd").and_then(|v| v.as_str()) {
        std::env::set_current_dir(cwd).expect("cwd");
    }
    let r = std::panic::catch_unwind(|| {
        let mut c = lalrpop::Configuration::new();
        c.log_quiet();
        if let Some(l) = req.get("log").and_then(|v| v.as_str()) {
            match l {
                "info" => { c.log_info(); }
                "verbose" => { c.log_verbose(); }
                "debug" => { c.log_debug(); }
                _ => {}
            }
        }
        if req["cargo_conventions"].as_bool().unwrap_or(false) {
            c.use_cargo_dir_conventions();
        }
        if req["in_source"].as_bool().unwrap_or(false) {
            c.generate_in_source_tree();
        }
        if let Some(d) = req.get("in_dir").and_then(|v| v.as_str()) {
            c.set_in_dir(d);
        }
        if let Some(d) = req.get("out_dir").and_then(|v| v.as_str()) {
            c.set_out_dir(d);
        }
        if let Some(b) = req.get("force").and_then(|v| v.as_bool()) {
            c.force_build(b);
        }
        if let Some(b) = req.get("rerun").and_then(|v| v.as_bool()) {
            c.emit_rerun_directives(b);
        }
        if let Some(b) = req.get("emit_comments").and_then(|v| v.as_bool()) {
            c.emit_comments(b);
        }
        if let Some(b) = req.get("emit_whitespace").and_then(|v| v.as_bool()) {
            c.emit_whitespace(b);
        }
        if let Some(b) = req.get("emit_report").and_then(|v| v.as_bool()) {
            c.emit_report(b);
        }
        if let Some(f) = req.get("features").and_then(|v| v.as_array()) {
            c.set_features(f.iter().map(|x| x.as_str().unwrap().to_string()));
        }
        let path = req.get("path").and_then(|v| v.as_str()).unwrap_or(".");
        let res = match req["op"].as_str().unwrap() {
            "process_dir" => c.process_dir(path),
            "process_file" => c.process_file(path),
            "process" => c.process(),
            "process_current_dir" => c.process_current_dir(),
            "process_root" => lalrpop::process_root(),
            "process_src" => lalrpop::process_src(),
            other => panic!("unknown op {}", other),
        };
        res.map_err(|e| e.to_string())
    });
    match r {
        Ok(Ok(())) => println!("RESULT ok"),
        Ok(Err(e)) => println!("RESULT err {}", e.replace('\n', " ")),
        Err(p) => {
            let m = p.downcast_ref::<String>().cloned().or_else(|| p.downcast_ref::<&str>().map(|s| s.to_string())).unwrap_or_default();
            println!("RESULT panic {}", m.replace('\n', " "));
        }
    }
}
