// Support code shared by every generated parser in a subject crate (DESIGN.md 1.2).
// Nothing here re-implements LALRPOP: it provides token/value/location types for the grammars,
// a canonical renderer for parse results, an event log and counting token iterators.
#![allow(dead_code)]

use lalrpop_util::{ErrorRecovery, ParseError};
use std::cell::RefCell;

#[derive(Clone, Debug, PartialEq)]
pub struct Tok {
    pub kind: u8,
    pub id: u32,
}

impl std::fmt::Display for Tok {
    fn fmt(&self, f: &mut std::fmt::Formatter<'_>) -> std::fmt::Result {
        write!(f, "t{}#{}", self.kind, self.id)
    }
}

pub const K0: u8 = 0;
pub const K1: u8 = 1;
pub const K2: u8 = 2;
pub const K3: u8 = 3;
pub const K4: u8 = 4;
pub const K5: u8 = 5;
pub const K6: u8 = 6;
pub const K7: u8 = 7;
pub const K8: u8 = 8;
pub const K9: u8 = 9;
pub const K10: u8 = 10;
pub const K11: u8 = 11;
pub const K12: u8 = 12;
pub const K13: u8 = 13;
pub const K14: u8 = 14;
pub const K15: u8 = 15;
pub const K16: u8 = 16;
pub const K17: u8 = 17;
pub const K18: u8 = 18;
pub const K19: u8 = 19;
pub const K20: u8 = 20;
pub const K21: u8 = 21;
pub const K22: u8 = 22;
pub const K23: u8 = 23;

#[derive(Clone, Debug, PartialEq)]
pub struct UErr(pub u32, pub u32);

/// Token type whose extern patterns carry 0, 1 or 2 bindings (C19).
#[derive(Clone, Debug, PartialEq)]
pub enum Tk {
    A,
    B(u32),
    C(u32, String),
    D { x: u32, y: u32 },
    E(Box<Tk>),
}

/// Token type with a lifetime (C19).
#[derive(Clone, Debug, PartialEq)]
pub enum TokL<'a> {
    Word(&'a str),
    Num(i64),
    Plus,
    Semi,
}

/// Trait with an associated type for generic grammars (C19).
pub trait Env {
    type Out: Clone + std::fmt::Debug;
    fn mk(&self, n: u32) -> Self::Out;
}

#[derive(Clone, Debug, PartialEq)]
pub enum Expr {
    Num(u32),
    Add(Box<Expr>, Box<Expr>),
    Neg(Box<Expr>),
}

/// A location type that is Clone but not Copy (C19).
#[derive(Clone, Debug, Default, PartialEq)]
pub struct CLoc(pub String);

impl CLoc {
    pub fn of(n: usize) -> CLoc {
        CLoc(format!("{}", n))
    }
    pub fn num(&self) -> u64 {
        if self.0.is_empty() { 0 } else { self.0.parse().unwrap() }
    }
}

#[derive(Clone, Debug, PartialEq)]
pub enum V {
    Unit,
    Loc(u64),
    Str(String),
    Tok(u8, u32),
    Tup(Vec<V>),
    List(Vec<V>),
    Opt(Option<Box<V>>),
    Node(u32, Vec<V>),
    /// error-recovery node: (l, recovery, r)
    Err(Box<V>, Box<V>, Box<V>),
    /// ErrorRecovery value: (error, dropped tokens)
    Rec(Box<V>, Vec<V>),
    PErr(String),
}

pub fn js_str(s: &str, out: &mut String) {
    out.push('"');
    for c in s.chars() {
        match c {
            '"' => out.push_str("\\\""),
            '\\' => out.push_str("\\\\"),
            '\n' => out.push_str("\\n"),
            '\r' => out.push_str("\\r"),
            '\t' => out.push_str("\\t"),
            c if (c as u32) < 0x20 => out.push_str(&format!("\\u{:04x}", c as u32)),
            c => out.push(c),
        }
    }
    out.push('"');
}

fn js_list(vs: &[V], out: &mut String) {
    out.push('[');
    for (i, v) in vs.iter().enumerate() {
        if i > 0 {
            out.push(',');
        }
        v.js(out);
    }
    out.push(']');
}

impl V {
    pub fn node(p: u32, kids: Vec<V>) -> V {
        V::Node(p, kids)
    }
    pub fn js(&self, out: &mut String) {
        match self {
            V::Unit => out.push_str("\"U\""),
            V::Loc(n) => out.push_str(&format!("[\"L\",{}]", n)),
            V::Str(s) => {
                out.push_str("[\"S\",");
                js_str(s, out);
                out.push(']');
            }
            V::Tok(k, i) => out.push_str(&format!("[\"T\",{},{}]", k, i)),
            V::Tup(vs) => {
                out.push_str("[\"P\",");
                js_list(vs, out);
                out.push(']');
            }
            V::List(vs) => {
                out.push_str("[\"V\",");
                js_list(vs, out);
                out.push(']');
            }
            V::Opt(None) => out.push_str("[\"O\",null]"),
            V::Opt(Some(v)) => {
                out.push_str("[\"O\",");
                v.js(out);
                out.push(']');
            }
            V::Node(p, vs) => {
                out.push_str(&format!("[\"N\",{},", p));
                js_list(vs, out);
                out.push(']');
            }
            V::Err(l, e, r) => {
                out.push_str("[\"E\",");
                l.js(out);
                out.push(',');
                e.js(out);
                out.push(',');
                r.js(out);
                out.push(']');
            }
            V::Rec(e, d) => {
                out.push_str("[\"R\",");
                e.js(out);
                out.push(',');
                js_list(d, out);
                out.push(']');
            }
            V::PErr(s) => {
                out.push_str("[\"X\",");
                out.push_str(s);
                out.push(']');
            }
        }
    }
}

pub trait ToV {
    fn to_v(&self) -> V;
}

impl ToV for V {
    fn to_v(&self) -> V {
        self.clone()
    }
}
impl ToV for () {
    fn to_v(&self) -> V {
        V::Unit
    }
}
impl ToV for usize {
    fn to_v(&self) -> V {
        V::Loc(*self as u64)
    }
}
impl ToV for u32 {
    fn to_v(&self) -> V {
        V::Loc(*self as u64)
    }
}
impl ToV for CLoc {
    fn to_v(&self) -> V {
        V::Loc(self.num())
    }
}
impl ToV for String {
    fn to_v(&self) -> V {
        V::Str(self.clone())
    }
}
impl ToV for &str {
    fn to_v(&self) -> V {
        V::Str(self.to_string())
    }
}
impl ToV for Tok {
    fn to_v(&self) -> V {
        V::Tok(self.kind, self.id)
    }
}
impl ToV for UErr {
    fn to_v(&self) -> V {
        V::Tup(vec![V::Loc(self.0 as u64), V::Loc(self.1 as u64)])
    }
}
impl<'a> ToV for lalrpop_util::lexer::Token<'a> {
    fn to_v(&self) -> V {
        V::Tup(vec![V::Loc(self.0 as u64), V::Str(self.1.to_string())])
    }
}
impl<T: ToV> ToV for Box<T> {
    fn to_v(&self) -> V {
        (**self).to_v()
    }
}
impl<T: ToV> ToV for Vec<T> {
    fn to_v(&self) -> V {
        V::List(self.iter().map(|x| x.to_v()).collect())
    }
}
impl<T: ToV> ToV for Option<T> {
    fn to_v(&self) -> V {
        V::Opt(self.as_ref().map(|x| Box::new(x.to_v())))
    }
}
macro_rules! tup {
    ($($n:ident : $i:tt),+) => {
        impl<$($n: ToV),+> ToV for ($($n,)+) {
            fn to_v(&self) -> V { V::Tup(vec![$(self.$i.to_v()),+]) }
        }
    };
}
tup!(A:0);
tup!(A:0, B:1);
tup!(A:0, B:1, C:2);
tup!(A:0, B:1, C:2, D:3);
tup!(A:0, B:1, C:2, D:3, E:4);
tup!(A:0, B:1, C:2, D:3, E:4, F:5);
tup!(A:0, B:1, C:2, D:3, E:4, F:5, G:6);
tup!(A:0, B:1, C:2, D:3, E:4, F:5, G:6, H:7);
tup!(A:0, B:1, C:2, D:3, E:4, F:5, G:6, H:7, I:8);
tup!(A:0, B:1, C:2, D:3, E:4, F:5, G:6, H:7, I:8, J:9);
tup!(A:0, B:1, C:2, D:3, E:4, F:5, G:6, H:7, I:8, J:9, K:10);
tup!(A:0, B:1, C:2, D:3, E:4, F:5, G:6, H:7, I:8, J:9, K:10, L:11);
tup!(A:0, B:1, C:2, D:3, E:4, F:5, G:6, H:7, I:8, J:9, K:10, L:11, M:12);
tup!(A:0, B:1, C:2, D:3, E:4, F:5, G:6, H:7, I:8, J:9, K:10, L:11, M:12, N:13);
tup!(A:0, B:1, C:2, D:3, E:4, F:5, G:6, H:7, I:8, J:9, K:10, L:11, M:12, N:13, O:14);
tup!(A:0, B:1, C:2, D:3, E:4, F:5, G:6, H:7, I:8, J:9, K:10, L:11, M:12, N:13, O:14, P:15);

impl<L: ToV, T: ToV, E: ToV> ToV for ErrorRecovery<L, T, E> {
    fn to_v(&self) -> V {
        V::Rec(
            Box::new(self.error.to_v()),
            self.dropped_tokens
                .iter()
                .map(|(l, t, r)| V::Tup(vec![l.to_v(), t.to_v(), r.to_v()]))
                .collect(),
        )
    }
}

impl<L: ToV, T: ToV, E: ToV> ToV for ParseError<L, T, E> {
    fn to_v(&self) -> V {
        V::PErr(perr_json(self))
    }
}

pub fn perr_json<L: ToV, T: ToV, E: ToV>(e: &ParseError<L, T, E>) -> String {
    let mut o = String::new();
    let exp = |o: &mut String, expected: &Vec<String>| {
        o.push_str(",\"expected\":[");
        for (i, s) in expected.iter().enumerate() {
            if i > 0 {
                o.push(',');
            }
            js_str(s, o);
        }
        o.push(']');
    };
    let tok = |o: &mut String, t: &(L, T, L)| {
        o.push_str(",\"tok\":[");
        t.0.to_v().js(o);
        o.push(',');
        t.1.to_v().js(o);
        o.push(',');
        t.2.to_v().js(o);
        o.push(']');
    };
    match e {
        ParseError::InvalidToken { location } => {
            o.push_str("{\"err\":\"InvalidToken\",\"loc\":");
            location.to_v().js(&mut o);
        }
        ParseError::UnrecognizedEof { location, expected } => {
            o.push_str("{\"err\":\"UnrecognizedEof\",\"loc\":");
            location.to_v().js(&mut o);
            exp(&mut o, expected);
        }
        ParseError::UnrecognizedToken { token, expected } => {
            o.push_str("{\"err\":\"UnrecognizedToken\"");
            tok(&mut o, token);
            exp(&mut o, expected);
        }
        ParseError::ExtraToken { token } => {
            o.push_str("{\"err\":\"ExtraToken\"");
            tok(&mut o, token);
        }
        ParseError::User { error } => {
            o.push_str("{\"err\":\"User\",\"e\":");
            error.to_v().js(&mut o);
        }
    }
    o.push('}');
    o
}

// ------------------------------------------------------------------------------------------
// event log and failure injection (thread-local: parses on different threads do not mix)

thread_local! {
    pub static EVENTS: RefCell<String> = const { RefCell::new(String::new()) };
    static NEV: RefCell<u32> = const { RefCell::new(0) };
    static FAILS: RefCell<Vec<(u32, i32)>> = const { RefCell::new(Vec::new()) };
    static PCOUNT: RefCell<Vec<(u32, i32)>> = const { RefCell::new(Vec::new()) };
    pub static PANIC_MSG: RefCell<Option<String>> = const { RefCell::new(None) };
}

pub fn reset_events(fails: Vec<(u32, i32)>) {
    EVENTS.with(|e| e.borrow_mut().clear());
    NEV.with(|n| *n.borrow_mut() = 0);
    FAILS.with(|f| *f.borrow_mut() = fails);
    PCOUNT.with(|f| f.borrow_mut().clear());
}

pub fn take_events() -> String {
    EVENTS.with(|e| std::mem::take(&mut *e.borrow_mut()))
}

fn push_event(code: char, n: u32) {
    EVENTS.with(|e| {
        let mut e = e.borrow_mut();
        if !e.is_empty() {
            e.push(' ');
        }
        e.push(code);
        e.push_str(&n.to_string());
    });
}

/// First statement of every instrumented user action.
pub fn ev(p: u32) {
    push_event('a', p);
    NEV.with(|n| *n.borrow_mut() += 1);
}

/// Body of a fallible action: logs the event, then fails if the workload says so.
/// The error payload names the production and the position of this event in the action log.
pub fn fa<L, T>(p: u32) -> Result<(), ParseError<L, T, UErr>> {
    ev(p);
    let seq = NEV.with(|n| *n.borrow()) - 1;
    let occ = PCOUNT.with(|c| {
        let mut c = c.borrow_mut();
        for e in c.iter_mut() {
            if e.0 == p {
                e.1 += 1;
                return e.1 - 1;
            }
        }
        c.push((p, 1));
        0
    });
    let fail = FAILS.with(|f| f.borrow().iter().any(|&(fp, k)| fp == p && (k < 0 || k == occ)));
    if fail {
        Err(ParseError::User { error: UErr(p, seq) })
    } else {
        Ok(())
    }
}

pub struct Input {
    pub toks: Vec<(usize, Tok, usize)>,
    pub err_at: Option<usize>,
    pub text: String,
}

/// Counting iterator over `(L, T, L)` triples; logs every poll; deliberately not fused in the
/// sense that polls after the end are logged too.
pub struct TripleIter<'a> {
    pub inp: &'a Input,
    pub pos: usize,
}

impl<'a> Iterator for TripleIter<'a> {
    type Item = (usize, Tok, usize);
    fn next(&mut self) -> Option<Self::Item> {
        if self.pos < self.inp.toks.len() {
            push_event('p', self.pos as u32);
            self.pos += 1;
            Some(self.inp.toks[self.pos - 1].clone())
        } else {
            push_event('n', (self.pos - self.inp.toks.len()) as u32);
            self.pos += 1;
            None
        }
    }
}

/// Counting iterator over `Result<(L, T, L), UErr>`; yields `Err(UErr(9999, j))` at position j.
pub struct ResultIter<'a> {
    pub inp: &'a Input,
    pub pos: usize,
}

impl<'a> Iterator for ResultIter<'a> {
    type Item = Result<(usize, Tok, usize), UErr>;
    fn next(&mut self) -> Option<Self::Item> {
        if Some(self.pos) == self.inp.err_at {
            push_event('e', self.pos as u32);
            self.pos += 1;
            return Some(Err(UErr(9999, (self.pos - 1) as u32)));
        }
        if self.pos < self.inp.toks.len() {
            push_event('p', self.pos as u32);
            self.pos += 1;
            Some(Ok(self.inp.toks[self.pos - 1].clone()))
        } else {
            push_event('n', (self.pos - self.inp.toks.len()) as u32);
            self.pos += 1;
            None
        }
    }
}

/// Same, with the Clone-only location type.
pub struct CLocIter<'a> {
    pub inp: &'a Input,
    pub pos: usize,
}

impl<'a> Iterator for CLocIter<'a> {
    type Item = (CLoc, Tok, CLoc);
    fn next(&mut self) -> Option<Self::Item> {
        if self.pos < self.inp.toks.len() {
            push_event('p', self.pos as u32);
            self.pos += 1;
            let t = &self.inp.toks[self.pos - 1];
            Some((CLoc::of(t.0), t.1.clone(), CLoc::of(t.2)))
        } else {
            push_event('n', (self.pos - self.inp.toks.len()) as u32);
            self.pos += 1;
            None
        }
    }
}

pub fn render<T: ToV, L: ToV, K: ToV, E: ToV>(r: Result<T, ParseError<L, K, E>>) -> String {
    let mut o = String::new();
    match r {
        Ok(v) => {
            o.push_str("{\"ok\":");
            v.to_v().js(&mut o);
            o.push('}');
        }
        Err(e) => o.push_str(&perr_json(&e)),
    }
    o
}
