// Subject driver: reads a workload file, runs each parse under catch_unwind and the logical
// step budget (lalrpop-util feature `verif`), prints one JSON line per execution.
#![allow(unused_imports, unused_variables, unused_mut, unused_parens, dead_code, non_snake_case, non_camel_case_types, clippy::all)]
mod support;
use std::io::{BufRead, Write};
use support::*;

include!("modules.rs");

fn hex_to_string(h: &str) -> String {
    let b: Vec<u8> = (0..h.len() / 2).map(|i| u8::from_str_radix(&h[2 * i..2 * i + 2], 16).unwrap()).collect();
    String::from_utf8(b).unwrap()
}

fn main() {
    let args: Vec<String> = std::env::args().collect();
    let path = &args[1];
    let skip: usize = if args.len() > 2 { args[2].parse().unwrap() } else { 0 };
    std::panic::set_hook(Box::new(|info| {
        let msg = if let Some(s) = info.payload().downcast_ref::<&str>() {
            s.to_string()
        } else if let Some(s) = info.payload().downcast_ref::<String>() {
            s.clone()
        } else {
            "<non-string panic>".to_string()
        };
        let loc = info.location().map(|l| format!("{}:{}", l.file(), l.line())).unwrap_or_default();
        PANIC_MSG.with(|p| *p.borrow_mut() = Some(format!("{} @ {}", msg, loc)));
    }));
    let f = std::io::BufReader::new(std::fs::File::open(path).unwrap());
    let stdout = std::io::stdout();
    let mut out = std::io::LineWriter::new(stdout.lock());
    for (n, line) in f.lines().enumerate() {
        if n < skip {
            continue;
        }
        let line = line.unwrap();
        let fs: Vec<&str> = line.split('\t').collect();
        if fs.len() < 9 {
            continue;
        }
        let idx = fs[0];
        let module = fs[1];
        let start = fs[2];
        let shape = fs[3].as_bytes()[0];
        let budget: u64 = fs[4].parse().unwrap();
        let err_at: Option<usize> = if fs[5] == "-" { None } else { Some(fs[5].parse().unwrap()) };
        let fails: Vec<(u32, i32)> = if fs[6] == "-" {
            vec![]
        } else {
            fs[6].split(',').map(|s| { let mut it = s.split(':'); (it.next().unwrap().parse().unwrap(), it.next().unwrap().parse().unwrap()) }).collect()
        };
        let toks: Vec<(usize, Tok, usize)> = if fs[7] == "-" {
            vec![]
        } else {
            fs[7].split(',').enumerate().map(|(i, s)| { let mut it = s.split(':'); let k: u8 = it.next().unwrap().parse().unwrap(); let l: usize = it.next().unwrap().parse().unwrap(); let r: usize = it.next().unwrap().parse().unwrap(); (l, Tok { kind: k, id: i as u32 }, r) }).collect()
        };
        let text = if fs[8] == "-" { String::new() } else { hex_to_string(fs[8]) };
        let inp = Input { toks, err_at, text };
        reset_events(fails);
        PANIC_MSG.with(|p| *p.borrow_mut() = None);
        lalrpop_util::verif::reset(budget);
        let r = std::panic::catch_unwind(std::panic::AssertUnwindSafe(|| dispatch(module, start, shape, &inp)));
        let steps = lalrpop_util::verif::steps();
        lalrpop_util::verif::reset(u64::MAX);
        let ev = take_events();
        let mut o = String::new();
        o.push_str(&format!("{{\"i\":{},", idx));
        match r {
            Ok(Some(s)) => { o.push_str("\"r\":"); o.push_str(&s); o.push_str(",\"panic\":null"); }
            Ok(None) => { o.push_str("\"r\":null,\"panic\":\"no such module/start\""); }
            Err(_) => {
                let m = PANIC_MSG.with(|p| p.borrow().clone()).unwrap_or_default();
                o.push_str("\"r\":null,\"panic\":");
                js_str(&m, &mut o);
            }
        }
        o.push_str(&format!(",\"ev\":\"{}\",\"steps\":{}}}", ev, steps));
        writeln!(out, "{}", o).unwrap();
    }
}
