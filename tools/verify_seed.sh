#!/bin/bash
# tools/verify_seed.sh <worktree> <seed-id>   e.g. /tmp/wt-c06 C06-1
# Confirms a sub-agent's seeded change in its scratch worktree: patch == working-tree diff,
# existing tests pass with it, demo fails with it and passes without; then stores it under
# /verif/seeded/<seed-id>/ with a verification record.
WT=$1; ID=$2
V=/verif/seeded/$ID
export CARGO_NET_OFFLINE=true CARGO_TARGET_DIR=$WT/target
cd $WT || exit 2
[ -f SEED/patch.diff ] || { echo "no SEED/patch.diff"; exit 2; }
mkdir -p $V && cp -r SEED/. $V/
LOG=$V/verification.txt; : > $LOG
echo "== worktree diff vs patch.diff" | tee -a $LOG
git diff -- . ':!SEED' > /tmp/wtdiff.$$
if diff -q <(grep -v '^index ' /tmp/wtdiff.$$) <(grep -v '^index ' SEED/patch.diff) >/dev/null; then echo "patch.diff matches the worktree diff" | tee -a $LOG; else echo "NOTE: patch.diff differs from worktree diff; using worktree diff" | tee -a $LOG; cp /tmp/wtdiff.$$ $V/patch.diff; fi
rm -f /tmp/wtdiff.$$
echo "== existing test-suite with the change" | tee -a $LOG
cargo nextest run --workspace --offline --no-fail-fast 2>&1 | grep -E "Summary|FAIL|error(\[|:)" | head -20 | tee -a $LOG
DEMO=$(python3 -c "import json;print(json.load(open('$V/meta.json')).get('demo_cmd',''))" 2>/dev/null)
echo "== demo with the change: $DEMO" | tee -a $LOG
if [ -x SEED/demo/run.sh ] || [ -f SEED/demo/run.sh ]; then
  sh SEED/demo/run.sh $WT > /tmp/demo1.$$ 2>&1; RC1=$?; tail -5 /tmp/demo1.$$ | tee -a $LOG; echo "rc=$RC1" | tee -a $LOG
  git apply -R $V/patch.diff || { echo "cannot reverse patch" | tee -a $LOG; exit 2; }
  echo "== demo without the change" | tee -a $LOG
  sh SEED/demo/run.sh $WT > /tmp/demo2.$$ 2>&1; RC2=$?; tail -5 /tmp/demo2.$$ | tee -a $LOG; echo "rc=$RC2" | tee -a $LOG
  git apply $V/patch.diff
  rm -f /tmp/demo1.$$ /tmp/demo2.$$
  if [ $RC1 -ne 0 ] && [ $RC2 -eq 0 ]; then echo "DEMO CONFIRMED" | tee -a $LOG; else echo "DEMO NOT CONFIRMED" | tee -a $LOG; fi
else
  echo "no demo/run.sh" | tee -a $LOG
fi
