#!/usr/bin/env python3
import json, sys
pid = sys.argv[1].upper()
wt = "/tmp/wt-" + pid.lower()
for l in open('/verif/properties.jsonl'):
    p = json.loads(l)
    if p['id'] == pid:
        break
print(f"""You are helping to evaluate a test/verification effort by playing the role of a careful "bug seeder".

Work ONLY inside the scratch git worktree `{wt}` (a checkout of the LALRPOP parser generator for Rust: crates `lalrpop` (the generator), `lalrpop-util` (runtime for generated parsers), `lalrpop-test` (integration tests), docs). Never read or modify anything under /repo or /verif. The sandbox is offline: always pass `--offline` to cargo, and set `CARGO_TARGET_DIR={wt}/target` for every cargo command so build output stays inside your worktree.

PROPERTY ({pid}: {p['title']}):
{p['statement']}
(Quantified over: {p['quantifier']['text']})

TASK: produce ONE small, realistic source change to LALRPOP (in `lalrpop/src/**` or `lalrpop-util/src/**`; the kind of slip a maintainer could plausibly make in a refactoring or "optimisation") that BREAKS this property, while
  (a) everything still compiles, and
  (b) the existing test-suite still passes: `cd {wt} && CARGO_TARGET_DIR={wt}/target cargo nextest run --workspace --offline --no-fail-fast` (349 tests pass on the unchanged tree; the first build takes several minutes). NOTE: if you change code generation, the test `verify_lalrpop_generates_itself` compares `lalrpop/src/parser/lrgrammar.rs` with a fresh generation, so either keep your change invisible for that grammar or regenerate the snapshot with `sh update_lrgrammar.sh`-style command (`cargo run -p lalrpop --offline -- --force --no-whitespace --out-dir lalrpop/src/parser lalrpop/src/parser/lrgrammar.lalrpop`) and include it in the patch.
The break must need something SPECIFIC to manifest — an unusual input, a particular grammar shape, a particular configuration (e.g. `#[recursive_ascent]`, `#[LALR]`, env `LALRPOP_LANE_TABLE=disabled`), a multi-step sequence, or two cooperating sites that each look fine alone — not something that ordinary use or the existing tests would expose at once. Prefer subtle over blatant, but it must be a true violation of the property as stated, and you must demonstrate it.

DELIVERABLES (all inside `{wt}/SEED/`):
  1. `patch.diff` — output of `git -C {wt} diff` for your source change only (no SEED files, no target dir).
  2. `demo/` — a self-contained demonstration (a small .lalrpop grammar plus a tiny Rust program or a shell script `demo/run.sh`) that exits non-zero / prints FAIL with your change applied and exits 0 / prints PASS on the unchanged tree. `demo/run.sh` must take the path of a LALRPOP checkout as its first argument, use only offline cargo, and put its build output under that checkout's `target` dir or a temp dir it deletes. Actually run it both ways (use `git stash` or `git apply -R` to check the unchanged tree) and record the outputs in `demo/OUTPUT.txt`.
  3. `meta.json` — {{"property": "{pid}", "summary": "...", "needs_to_manifest": "...", "files_changed": [...], "tests_run": "command + pass/fail counts you observed", "demo_cmd": "..."}}.
Leave the worktree with your change applied. When done, reply with a short summary: what you changed, what it needs to manifest, test-suite result, demo result. If after a serious attempt you cannot find a change that passes the existing tests, say so and describe the closest attempt.""")
