#!/bin/bash
# tools/sweep.sh <seed> [tier] : run every registered check once at the given seed, print one line each
SEED=${1:-2}; TIER=${2:-quick}
cd "$(dirname "$(readlink -f "$0")")/.."
for p in ${PROPS:-$(python3 -c "import json;print(' '.join(c['property_id'] for c in json.load(open('MANIFEST.json'))['checks']))")}; do
  S=$(date +%s)
  VERIF_SEED=$SEED ./check $p --tier $TIER > /tmp/sweep-$p-$SEED-$TIER.out 2>&1
  RC=$?
  E=$(( $(date +%s) - S ))
  echo "$p seed=$SEED rc=$RC ${E}s $(grep -c VIOLATION /tmp/sweep-$p-$SEED-$TIER.out) violations $(grep -c KNOWN-FINDING /tmp/sweep-$p-$SEED-$TIER.out) known"
  if [ $RC -ne 0 ]; then grep -E "VIOLATION|kind=|HARNESS|INCONCLUSIVE|Error|error" /tmp/sweep-$p-$SEED-$TIER.out | head -5 | cut -c1-300; fi
done
