#!/bin/bash
cd "$(dirname "$(readlink -f "$0")")/.."
for s in "$@"; do tools/sweep.sh $s quick; done
