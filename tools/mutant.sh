#!/bin/bash
# tools/mutant.sh [-R] <patch> <Cnn> [more check args]   -- development aid (DESIGN 1.7)
# Copies /repo to a scratch dir outside /repo and /verif, applies the patch (-R: reversed),
# runs the check against the copy (VERIF_REPO), prints the outcome, removes the copy and
# its cargo target dir.
REV=""
if [ "$1" = "-R" ]; then REV="-R"; shift; fi
PATCH=$(readlink -f "$1"); shift
D=$(mktemp -d /tmp/mut-XXXXXX)
rsync -a --exclude target --exclude .git /repo/ "$D/"
( cd "$D" && patch -s -p1 $REV < "$PATCH" ) || { echo "PATCH FAILED"; rm -rf "$D"; exit 2; }
cd "$(dirname "$(readlink -f "$0")")/.."
TAG=alt-$(python3 -c "import hashlib,sys;print(hashlib.sha1(sys.argv[1].encode()).hexdigest()[:10])" "$D")
VERIF_REPO="$D" VERIF_WORK="$D.work" VERIF_EVIDENCE="$D.work/evidence" ./check "$@" > "$D.out" 2>&1
RC=$?
grep -E "VIOLATION|KNOWN-FINDING|INCONCLUSIVE|HARNESS|held on|violation\(s\)" "$D.out" | cut -c1-300 | head -8
echo "mutant rc=$RC"
rm -rf "$D" "$D.out" "$D.work" "target/$TAG" "target/subject-$TAG" "target/tools-$TAG"
exit $RC
