#!/usr/bin/env python3
"""Regenerates /verif/MANIFEST.json from the table below (kept in one place so it stays valid)."""
import json, os, subprocess
V = os.path.dirname(os.path.dirname(os.path.abspath(__file__)))
props = [json.loads(l) for l in open(os.path.join(V, "properties.jsonl"))]
TB = "rustc/cargo; Python reference oracles in vlib/ (Earley, evaluator, LR(1)) self-tested at start-up; sampling: universals are explored, not covered"
CHECKS = {
 "C01": ("exploration", "3/C01", "differential runtime monitor: compiled generated parsers vs Earley membership oracle over generated grammars x 6 configurations x exhaustive short strings, sentences, mutants",
         "Every accepted generated grammar is compiled in all 6 (backend x construction) configurations and run on exhaustive short strings, random sentences and mutants; each Ok/Err is compared with an independent Earley recogniser on the reference-desugared CFG."),
 "C02": ("exploration", "3/C02", "runtime monitor on recorded values + action event logs vs reference evaluator over the Earley derivation tree",
         "Accepted inputs: the returned value (rendered canonically, token leaves carry unique ids) and the logged action sequence must equal the reference evaluation of the unique derivation tree in post-order."),
 "C04": ("exploration", "3/C04", "runtime monitor on error value + token-pull event log vs Earley viable-prefix oracle",
         "Rejected inputs: error variant, token, exact span and number of tokens pulled from a counting iterator are compared with the shortest non-viable prefix computed by Earley."),
 "C05": ("exploration", "3/C05", "runtime monitor on `expected` lists vs Earley valid-next-terminal sets",
         "Every expected list is checked for soundness (each listed terminal continues the consumed prefix), duplicates, foreign names, and completeness under canonical LR(1)."),
 "C06": ("exploration", "3/C06 + A.7", "runtime monitor on recorded @L/@R values and spans vs reference location calculus, plus exact table-driven vs recursive-ascent comparison",
         "Grammars with @L/@R, nullable real nonterminals at the start/middle/end of alternatives and inlined sugar are compiled in all 6 configurations; every location in a result is compared with the reference calculus over the Earley derivation tree (token locations are distinct and gapped, leading gap 0 or 5 so that `default` differs from `start of first token`); both back ends are compared exactly."),
 "C07": ("exploration", "3/C07", "differential runtime monitor: table-driven vs recursive-ascent parser of the same grammar and construction on identical inputs, injected stream errors and failing actions",
         "Pure differential over accepted and rejected inputs, user errors from fallible actions and injected lexer errors; expected lists are excluded (C05)."),
 "C14": ("exploration", "3/C14", "differential runtime monitor (grammar vs grammar + #[inline]) plus action-event-log monitor against the reference evaluator in inlined order",
         "Each base grammar is paired with variants carrying #[inline] on random subsets of inlinable nonterminals; acceptance, values and user errors are compared on the same inputs and failure plans, and the inlined grammar's action log is compared with the reference order (inlined actions left to right just before the host action)."),
 "C16": ("exploration", "3/C16 + A.9", "runtime monitor: recovery-tree checker over recorded parse trees (all symbols bound, `@L ! @R` around every error node) + Earley on the grammar without `!`",
         "Successful parses of grammars with error alternatives on mutated sentences are checked against the six clauses of A.9 (derivation shape, token order, every missing token inside exactly one error span, spans ordered/disjoint, dropped tokens in order, no recovery on valid input)."),
 "C17": ("exploration", "3/C17 + A.8", "trace monitor over the recorded pull/error/action event log: the first failing event must be the last event and must be returned verbatim",
         "Stream errors are injected at every kind of position (0, n, random) and fallible actions are told to fail at their k-th invocation; the event log of each execution is checked without any model of the parser, and for sentences the reference evaluator says which action must fail first."),
 "C03": ("exploration", "3/C03", "differential runtime monitor: real CLI outcome (accept / conflict diagnostic) under lane-table, canonical LR(1) and LALR(1) vs a textbook LR(1)/LALR(1) construction on the reference-desugared, reference-inlined grammar",
         "All 377 one-nonterminal grammars over {a,b} are enumerated; two-nonterminal tiny grammars, random raw CFGs (with unreachable/unproductive nonterminals, several pub starts), sugar/inline grammars, boundary families (LR(1)-not-LALR, LALR-not-SLR, LR(2), dangling else) and lane-table stress families are sampled; every (grammar, construction) outcome is compared with the oracle."),
 "C08": ("exploration", "3/C08 + 2.1", "runtime monitor with a logical step budget (hooked driver/lexer loops), catch_unwind panic capture and child-crash attribution, over lexer, extern-token and recovery workloads",
         "Termination is restated as bounded progress: every parse must finish within B(n,G) driver/lexer steps (counted by the `verif` hook), without panic or crash; wall-clock watchdog firings are inconclusive."),
 "C09": ("exploration", "3/C09 + A.6", "differential runtime monitor: compiled generated lexers vs reference lexer (longest full match by the regex crate + documented precedence ranks)",
         "Generated terminal sets (literals, regexes, 0-3 match rungs, renamings, skip rules, `_`, implicit whitespace skip) are compiled in both back ends and run on texts built from pattern samples, whitespace and noise; token kinds, texts, byte spans and the InvalidToken offset are compared."),
 "C10": ("exploration", "3/C10", "differential runtime monitor as C09, focused on single terminals: exotic literals and syntax-directed regexes vs full-match on the original pattern text",
         "1-2 terminals per lexer; strings sampled from the pattern, single-edit mutants and case swaps decide membership both ways; any re-rendering difference shows up as a token difference."),
 "C11": ("exploration", "3/C11", "differential monitor: CLI ambiguity diagnostic vs exact DFA-product overlap of every equal-precedence pair (regex-automata dense DFAs, match-kind all), unsupported features must be diagnosed",
         "Acceptance must imply that no equal-precedence pair has an unshadowed common string; an ambiguity report must be backed by a common string; overlaps that a higher-precedence pattern always wins are treated as unspecified."),
 "C12": ("exploration", "3/C12 + A.4", "differential runtime monitor: annotated grammar through LALRPOP vs reference tier grammar through Earley + reference evaluator",
         "Random layouts of #[precedence]/#[assoc] (gaps, interleaving, inheritance, all four sides, binary/prefix/postfix/ternary/n-ary/grouped alternatives) are compiled and run on exhaustive short operator strings, sentences and mutants; acceptance and parse trees must match the documented tiers."),
 "C13": ("exploration", "3/C13 + A.3", "differential runtime monitor: sugared grammar through LALRPOP vs reference expansion by substitution through Earley + reference evaluator",
         "Macro definitions (plain, two-parameter, conditional, list, optional, recursive tier) used with literal/nonterminal/group/repeat/nested arguments; language and values (Vec order, Option, tuple shapes) are compared."),
 "C18": ("exploration", "3/C18", "runtime monitor on process status + stderr of the real CLI (debug build: debug_assert/overflow checks active) over mutated corpus grammars and targeted near-valid producers",
         "Token-level and byte-level mutants of every .lalrpop file in the repository and of generator output, targeted producers for attribute/precedence/macro/pattern/match-block corner cases, and conflict-rich grammars that exercise the error-report generator; any exit other than 0/1, any panic or abort is a violation keyed by source location."),
 "C20": ("exploration", "3/C20", "differential runtime monitor: byte equality of outputs across separate processes (fresh hash seeds), CLI vs process_file vs process_dir batches with varying composition and walk order",
         "Every grammar of the corpus is generated in 8 (quick) / 16 (thorough) independent processes, through the API, and inside batches with sub-directories and permuted names; SHA-256 of the outputs must coincide."),
 "C21": ("exploration", "3/C21", "runtime monitor: model of the output directory checked after every build step of random edit/damage/build histories",
         "Histories of 10-40 steps (edit, revert, touch, break, delete output, damage version/hash header, foreign output, builds through the CLI and process_dir); after each build every output must equal a forced generation of the current text, current outputs keep inode+mtime, failing grammars have no output."),
 "C22": ("fault_enumeration", "3/C22", "fault injection on the real binary: SIGKILL at the k-th file-affecting syscall (strace inject) and RLIMIT_FSIZE at byte offsets (SIGXFSZ and EFBIG), followed by a non-forced rebuild and byte comparison",
         "Every syscall boundary of every file-affecting syscall family and (thorough: every) byte offset of the output are used as crash points, from three previous-output states, with and without --report; the next non-forced build must reproduce the clean bytes."),
 "C23": ("exploration", "3/C23", "runtime monitor: file-system snapshot diff vs a path calculator written from the statement, over random directory trees and configurations",
         "Trees with nesting, src components, symlinked files/directories, dangling links, odd names; configurations CLI/-o, process_dir/process/process_current_dir/process_file, OUT_DIR conventions, in-source; expected file set, contents, error status and rerun directives are compared."),
 "C24": ("translation_validation", "3/C24", "translation validation: proc_macro2 token streams of the output under each option combination vs the default output",
         "Each accepted grammar is generated under all 8 combinations of --comments/--no-whitespace/--report (and through the setters for a slice); token streams (operators re-glued by maximal munch) must be identical."),
 "C27": ("exploration", "3/C27", "sanitizers + result monitor: one multi-threaded subject program run natively (result equality vs sequential baseline), under ThreadSanitizer (-Zbuild-std) and under Miri (many seeds)",
         "Shared Arc<Parser> values (built-in lexer and extern tokens) are hammered from 8-32 threads with a start barrier; every result is compared with a fresh-parser baseline; TSan and Miri reports are violations; Send+Sync is asserted at compile time."),
 "C28": ("exploration", "3/C28", "exhaustive runtime monitor over small domains with recording closures vs an independent re-statement of the documented behaviour",
         "All 128 ParseError values over the small domains are pushed through map_location/map_token/map_error/Display/From; call sequences of the closures are recorded (both span ends, start then end)."),
 "C15": ("translation_validation", "3/C15 + A.5", "translation validation: output for the annotated grammar under each feature set vs output for the hand-deleted grammar (bytes after the header, else proc_macro2 token streams)",
         "Grammars with #[cfg] on nonterminals, alternatives and extern conversions (feature=, not, all, any, nesting, several attributes per item); ALL subsets of the feature names; features given by --features, set_features and CARGO_FEATURE_* (name mangling); acceptance and generated program must equal those of the reference-deleted text."),
 "C19": ("exploration", "3/C19", "runtime (build-time) monitor: rustc type-checks every module LALRPOP accepts, inside a subject crate against the current lalrpop-util",
         "Generator profiles in both back ends, Clone-only Location type, built-in lexers with exotic terminal names, and type-rich templates (extern patterns with 0/1/2 bindings, generics/lifetimes/where/associated types/grammar parameters, macro type parameters, 'input borrows, boxed recursive types); any rustc rejection of an accepted grammar is a violation."),
 "C25": ("exploration", "3/C25", "differential runtime monitor: grammar vs injectively renamed grammar (adversarial identifier pools) on LALRPOP acceptance, rustc acceptance and every parse result/action log",
         "Nonterminals, macro names/parameters and bindings are renamed in model grammars (results compared on exhaustive short strings, sentences, mutants in both back ends); grammar parameters, type parameters and lifetimes are renamed in templates (acceptance + compilation)."),
 "C26": ("exploration", "3/C26", "differential monitor on layout variants (token-list printer + random whitespace/comments) and value monitor on embedded Rust snippets computing known strings",
         "Layout: canonical vs 4 random layouts per grammar must give the same acceptance and program. Embedded Rust: tricky literals/delimiters/lifetimes/comments in actions, use items, type annotations and #![..] attributes must be accepted, compile, and compute the expected value in both back ends."),
}
checks = []
for p in props:
    pid = p["id"]
    if pid not in CHECKS:
        continue
    level, ref, tech, text = CHECKS[pid]
    checks.append({
        "property_id": pid,
        "quick_cmd": "./check %s --tier quick" % pid,
        "thorough_cmd": "./check %s --tier thorough" % pid,
        "evidence_file": "/verif/evidence/%s.json" % pid,
        "replay_cmd_template": "./check %s --replay {path}" % pid,
        "level_claimed": {"category": level, "text": text, "design_ref": "DESIGN.md section " + ref},
        "level_note": TB,
        "technique": tech,
    })
na = [{"property_id": p["id"], "reason": "check not built yet (work in progress; see DESIGN.md section 3 for the planned monitor)"}
      for p in props if p["id"] not in CHECKS]
hooks = subprocess.check_output(["git", "-C", "/repo", "log", "--format=%H %s"]).decode().splitlines()
hook_commits = [l.split()[0] for l in hooks if " verif hook" in l]
m = {
 "version": 1,
 "setup_cmd": "./setup.sh",
 "hooks": {
  "guard": "cargo feature `verif` of lalrpop-util (off by default; nothing in the lalrpop crate is hooked)",
  "enable": "subject crates depend on /repo/lalrpop-util with features = [\"lexer\",\"unicode\",\"std\",\"verif\"]",
  "baseline_off_cmd": "cd /repo && (cargo nextest run --workspace --no-fail-fast --test-threads 8 --offline || cargo test --workspace --no-fail-fast --offline)",
  "source_commits": hook_commits,
  "add_only": True,
 },
 "checks": checks,
 "not_applicable": na,
 "notes": "All checks: `./check <Cnn> --tier quick|thorough`, VERIF_SEED honoured, exit 0 held / 1 VIOLATION / 2 harness error / 3 inconclusive. Known findings: /verif/known_findings.json.",
}
json.dump(m, open(os.path.join(V, "MANIFEST.json"), "w"), indent=1)
print("checks:", len(checks), "not_applicable:", len(na))
