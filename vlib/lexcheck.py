"""Shared engine for the built-in-lexer checks (C09, C10, C08a): generated terminal sets ->
real CLI -> compiled parsers run on generated texts -> token streams compared with the reference
lexer (vtools `lexref`: longest full match with the `regex` crate + documented precedence)."""
import json
import time

from . import core, lexgen, subject, tools
from .subject import wl_line


class LexCase:
    def __init__(self, idx, spec):
        self.idx = idx
        self.spec = spec
        self.text = spec.grammar_text()
        self.mods = {}
        self.status = {}
        self.stderr = {}
        self.texts = []


def make_lex_cases(chk, rng, n_accept, gen_fn, tags=("td_lane",), max_attempts=None):
    subj = subject.Subject(chk.work)
    cases = []
    rejected = []
    attempts = 0
    max_attempts = max_attempts or n_accept * 15
    t0 = time.time()
    while len(cases) < n_accept and attempts < max_attempts:
        cands = [LexCase(None, gen_fn(rng)) for _ in range(32)]
        attempts += len(cands)
        specs = [dict(name="p%d_%d" % (attempts, j), text=c.text, cfg=tags[0], starts=["S"], kind="builtin") for j, c in enumerate(cands)]
        mods = subj.add_many(specs)
        for c, m in zip(cands, mods):
            del subj.modules[m.name]
            chk.count("cli_" + m.status)
            if m.status == "ok":
                if len(cases) < n_accept:
                    c.idx = len(cases)
                    cases.append(c)
            else:
                c.stderr[tags[0]] = m.stderr
                c.status[tags[0]] = m.status
                rejected.append(c)
                if "mbigu" in m.stderr:
                    chk.count("rejected_ambiguity")
                elif m.status == "error":
                    chk.count("rejected_other")
                    chk.extra.setdefault("rejected_other_samples", [])
                    if len(chk.extra["rejected_other_samples"]) < 4:
                        chk.extra["rejected_other_samples"].append(m.stderr.strip()[-300:])
    specs = []
    for c in cases:
        for tag in tags:
            specs.append(dict(name="x%d_%s" % (c.idx, tag), text=c.text, cfg=tag, starts=["S"], kind="builtin"))
    mods = subj.add_many(specs)
    k = 0
    for c in cases:
        for tag in tags:
            c.status[tag] = mods[k].status
            k += 1
    core.log("[lex] %d lexers accepted of %d generated (%.1fs)" % (len(cases), attempts, time.time() - t0))
    ok = set(subj.build())
    for c in cases:
        for tag in tags:
            n = "x%d_%s" % (c.idx, tag)
            if n in ok:
                c.mods[tag] = n
    return subj, cases, rejected


def expected_for(spec, texts):
    """reference token streams: list of ('ok', [(id, l, text, r)...]) | ('err', offset) | ('tie',)"""
    rep = tools.call({"op": "lexref", "pats": spec.ref_patterns(), "texts": texts})
    if "error" in rep:
        return None, rep["error"]
    names = spec.names()
    out = []
    for t, r in zip(texts, rep["results"]):
        if r["tie"]:
            out.append(("tie",))
            continue
        b = t.encode()
        toks = []
        for (s, pi, e) in r["toks"]:
            nm = spec.entries[pi].user_name()
            toks.append((names.index(nm), s, b[s:e].decode(), e))
        if r["err"] is not None:
            out.append(("err", r["err"], toks))
        else:
            out.append(("ok", toks))
    return out, None


def observed_tokens(r):
    """Ok value of `pub S: Vec<V> = <T*>` -> [(id, l, text, r)]"""
    v = r["ok"]
    out = []
    for n in v[1]:
        kids = n[2]
        out.append((n[1], kids[0][1], kids[1][1], kids[2][1]))
    return out


def run_lex(chk, subj, cases, texts_fn, tags):
    lines = []
    meta = []
    i = 0
    for c in cases:
        c.texts = texts_fn(c)
        for t in c.texts:
            nb = len(t.encode())
            for tag in tags:
                if tag in c.mods:
                    lines.append(wl_line(i, c.mods[tag], "S", text=t, budget=64 * (nb + 2) ** 2 * (len(c.spec.entries) + 3)))
                    meta.append((c, t, tag))
                    i += 1
    t0 = time.time()
    res = subj.run(lines)
    core.log("[lex] %d executions in %.1fs" % (len(lines), time.time() - t0))
    return meta, res


def monitor_lex(chk, prop, meta, res, report_c08=False):
    exp_cache = {}
    for i, (c, t, tag) in enumerate(meta):
        rec = res.get(i)
        chk.evaluations += 1
        key = c.idx
        if key not in exp_cache:
            exp_cache[key] = expected_for(c.spec, c.texts)
        exp, err = exp_cache[key]
        if exp is None:
            chk.inconclusive += 1
            chk.count("oracle_regex_error")
            continue
        ti = c.texts.index(t)
        want = exp[ti]

        def viol(kind, detail):
            chk.violation({"kind": kind, "sig": kind, "summary": "%s config=%s text=%r: %s" % (kind, tag, t, json.dumps(detail, ensure_ascii=False)[:400]),
                           "grammar": subject.apply_config(c.text, tag), "config": tag, "text": t, "text_hex": t.encode().hex(),
                           "expected": detail, "observed": rec, "patterns": c.spec.ref_patterns()})
        if rec is None or rec.get("timeout"):
            chk.inconclusive += 1
            chk.count("watchdog_timeouts")
            continue
        if "crash" in rec:
            if report_c08:
                viol("crash", {"rc": rec["crash"], "stderr": rec.get("stderr", "")[-300:]})
            chk.count("crashes")
            continue
        if rec.get("panic"):
            if report_c08:
                viol("step_budget" if "step budget" in rec["panic"] else "panic", {"panic": rec["panic"]})
            elif want[0] != "tie":
                # the reference lexer has an answer for this text, the generated one has none
                viol("parse_did_not_return_a_result", {"panic": rec["panic"], "reference": want})
            chk.count("panics")
            continue
        if report_c08:
            # progress monitor: the parse came back within the budget; count work done
            chk.nontriv((c.idx, tag, t))
            chk.count("steps_total", rec.get("steps", 0))
            continue
        if want[0] == "tie":
            chk.count("reference_tie_skipped_(C11)")
            continue
        r = rec["r"]
        if want[0] == "ok":
            if "ok" not in r:
                viol("tokens_rejected", {"expected_tokens": want[1], "got": r})
                continue
            got = observed_tokens(r)
            if got != [tuple(x) for x in want[1]]:
                viol("wrong_tokens", {"expected_tokens": want[1], "got": got})
            elif len(want[1]) >= 1:
                chk.nontriv((c.idx, tag, t))
        else:
            exp_err = {"err": "InvalidToken", "loc": ["L", want[1]]}
            if r != exp_err:
                viol("wrong_invalid_token", {"expected": exp_err, "tokens_before": want[2], "got": r})
            else:
                chk.count("invalid_token_positions_checked")
                chk.nontriv((c.idx, tag, t))
