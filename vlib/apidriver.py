"""Build and call rust/apidriver (a tiny program that drives lalrpop::Configuration)."""
import json
import os
import shutil
import tempfile
import threading

from . import core

_bin = None
_lock = threading.Lock()


def build():
    global _bin
    with _lock:
        if _bin:
            return _bin
        src = os.path.join(core.VERIF, "rust", "apidriver")
        dst = core.ensure_dir(os.path.join(core.TARGET, "api-src-" + core.repo_tag()))
        core.ensure_dir(os.path.join(dst, "src"))
        toml = open(os.path.join(src, "Cargo.toml")).read().replace("@REPO@", core.REPO)
        p = os.path.join(dst, "Cargo.toml")
        if not os.path.exists(p) or open(p).read() != toml:
            open(p, "w").write(toml)
        shutil.copy(os.path.join(core.REPO, "Cargo.lock"), os.path.join(dst, "Cargo.lock"))
        ms = open(os.path.join(src, "src", "main.rs")).read()
        mp = os.path.join(dst, "src", "main.rs")
        if not os.path.exists(mp) or open(mp).read() != ms:
            open(mp, "w").write(ms)
        td = os.path.join(core.TARGET, "api-" + core.repo_tag())
        rc, out, err, to = core.cargo(["build", "--offline", "--quiet"], dst, td, timeout=3000)
        if rc != 0:
            raise core.HarnessError("cannot build apidriver:\n" + err[-3000:])
        _bin = os.path.join(td, "debug", "apidriver")
        return _bin


def call(req, env=None, timeout=120, cwd=None):
    """-> dict(status='ok'|'err'|'panic'|'crash'|'timeout', msg, stdout, stderr)"""
    b = build()
    rc, out, err, to = core.run([b, json.dumps(req)], timeout=timeout, env=env, cwd=cwd)
    out = out.decode(errors="replace")
    err = err.decode(errors="replace")
    st, msg = "crash", "rc=%s" % rc
    if to:
        st = "timeout"
    for line in out.splitlines():
        if line.startswith("RESULT "):
            parts = line.split(" ", 2)
            st = parts[1]
            msg = parts[2] if len(parts) > 2 else ""
    return {"status": st, "msg": msg, "stdout": out, "stderr": err, "rc": rc}
