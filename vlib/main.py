import argparse
import importlib
import os
import sys
import traceback

from . import core


def main():
    ap = argparse.ArgumentParser()
    ap.add_argument("prop")
    ap.add_argument("--tier", default=os.environ.get("VERIF_TIER", "quick"), choices=["quick", "thorough"])
    ap.add_argument("--replay", default=None)
    ap.add_argument("--seed", type=int, default=None)
    a = ap.parse_args()
    seed = a.seed if a.seed is not None else int(os.environ.get("VERIF_SEED", "1") or "1")
    prop = a.prop.upper()
    try:
        mod = importlib.import_module("vlib.checks." + prop.lower())
    except ModuleNotFoundError as e:
        print("no check for %s: %s" % (prop, e), file=sys.stderr)
        sys.exit(2)
    try:
        if a.replay:
            rc = mod.replay(a.replay, seed)
        else:
            rc = mod.run(a.tier, seed)
    except core.HarnessError as e:
        print("HARNESS-ERROR property=%s %s" % (prop, e), file=sys.stderr)
        sys.exit(2)
    except Exception:
        traceback.print_exc()
        print("HARNESS-ERROR property=%s internal error" % prop, file=sys.stderr)
        sys.exit(2)
    sys.exit(rc)


if __name__ == "__main__":
    main()
