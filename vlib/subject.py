"""Subject crates: real LALRPOP output compiled by rustc against /repo's lalrpop-util (DESIGN 1.2)."""
import json
import os
import re
import shutil
import time

from . import core

CONFIGS = [
    # (tag, recursive_ascent, lalr_attr, lane_env)
    ("td_lane", False, False, None),
    ("ra_lane", True, False, None),
    ("td_lr1", False, False, "disabled"),
    ("ra_lr1", True, False, "disabled"),
    ("td_lalr", False, True, "disabled"),
    ("ra_lalr", True, True, "disabled"),
]
CONFIG = {c[0]: c for c in CONFIGS}


def config_attrs(tag):
    _, ra, lalr, _ = CONFIG[tag]
    s = ""
    if ra:
        s += "#[recursive_ascent]\n"
    if lalr:
        s += "#[LALR]\n"
    return s


def apply_config(text, cfg):
    """Insert the configuration attributes right before `grammar;` (marker from the printer)."""
    attrs = config_attrs(cfg) if cfg else ""
    if "/*@CONFIG@*/" in text:
        return text.replace("/*@CONFIG@*/", attrs.strip())
    return attrs + text


def config_env(tag):
    lane = CONFIG[tag][3]
    return {"LALRPOP_LANE_TABLE": lane} if lane else {}


def run_lalrpop(bin_, grammar_path, out_dir=None, env=None, extra=(), timeout=120):
    """Run the real CLI on one grammar file. Returns dict(rc, stderr, stdout, timed_out)."""
    cmd = [bin_, "--force"]
    if out_dir:
        cmd += ["--out-dir", out_dir]
    cmd += list(extra) + [grammar_path]
    rc, out, err, to = core.run(cmd, timeout=timeout, env=env, rlimit_as=8 << 30)
    return {"rc": rc, "stdout": out.decode(errors="replace"), "stderr": err.decode(errors="replace"),
            "timed_out": to}


def classify_cli(res):
    """-> 'ok' | 'error' | 'panic' | 'timeout' | 'signal'."""
    if res["timed_out"]:
        return "timeout"
    if res["rc"] == 0:
        return "ok"
    if "panicked at" in res["stderr"] or res["rc"] == 101:
        return "panic"
    if res["rc"] < 0 or res["rc"] > 128:
        return "signal"
    return "error"


class Module:
    def __init__(self, name, text, cfg, starts, kind, meta=None):
        self.name = name
        self.text = text
        self.cfg = cfg            # config tag or None (attrs already in text)
        self.starts = starts      # list of pub nonterminal names
        self.kind = kind          # 'extern' | 'builtin' | 'cloc'
        self.meta = meta
        self.status = None        # 'ok'|'error'|...
        self.stderr = ""
        self.compiled = None


class Subject:
    def __init__(self, work, name="subject"):
        self.dir = core.ensure_dir(os.path.join(work, name), wipe=True)
        self.src = core.ensure_dir(os.path.join(self.dir, "src"))
        self.gdir = core.ensure_dir(os.path.join(self.dir, "grammars"))
        self.modules = {}
        self.bin = None
        self.compile_failures = {}
        self.lalrpop = core.build_lalrpop()
        self.target = os.path.join(core.TARGET, "subject-" + core.repo_tag())

    # -- generation ---------------------------------------------------------------------------
    def add(self, name, text, cfg=None, starts=("S",), kind="extern", meta=None, env=None, extra=()):
        """Write the grammar (with config attributes prepended when cfg is given) and run the
        real CLI on it."""
        m = Module(name, text, cfg, list(starts), kind, meta)
        full = apply_config(text, cfg)
        gp = os.path.join(self.gdir, name + ".lalrpop")
        with open(gp, "w") as f:
            f.write(full)
        e = dict(config_env(cfg)) if cfg else {}
        if env:
            e.update(env)
        res = run_lalrpop(self.lalrpop, gp, out_dir=self.src, env=e, extra=extra)
        m.status = classify_cli(res)
        m.stderr = res["stderr"] + ("\n" + res["stdout"] if m.status != "ok" else "")
        m.full_text = full
        if m.status == "ok" and not os.path.exists(os.path.join(self.src, name + ".rs")):
            m.status = "error"
            m.stderr += "\n<exit 0 but no output file>"
        self.modules[name] = m
        return m

    def add_many(self, specs, jobs=None):
        """specs: list of dict(name,text,cfg,starts,kind,meta,env). Runs the CLI in parallel."""
        def one(s):
            return self.add(**s)
        return core.tmap(one, specs, jobs)

    # -- compilation --------------------------------------------------------------------------
    def _write_crate(self, names):
        with open(os.path.join(self.dir, "Cargo.toml"), "w") as f:
            f.write("""[package]
name = "subject"
version = "0.0.0"
edition = "2021"

[workspace]

[[bin]]
name = "subject"
path = "src/driver.rs"

[dependencies]
lalrpop-util = { path = "%s/lalrpop-util", features = ["lexer", "unicode", "std", "verif"] }

[profile.dev]
opt-level = 0
debug = false
incremental = false
codegen-units = 64
overflow-checks = true
""" % core.REPO)
        lock = os.path.join(core.REPO, "Cargo.lock")
        if os.path.exists(lock):
            shutil.copy(lock, os.path.join(self.dir, "Cargo.lock"))
        for fn in ("support.rs", "driver.rs"):
            shutil.copy(os.path.join(core.VERIF, "rust", "subject", fn), os.path.join(self.src, fn))
        mods = []
        arms = []
        for n in names:
            m = self.modules[n]
            # `#[path]` (not include!) so that grammars may carry `#![..]` inner attributes
            mods.append("#[allow(unused_imports, unused_variables, unused_mut, unused_parens, dead_code, non_snake_case, non_camel_case_types, clippy::all)]\n"
                        "#[rustfmt::skip]\n#[path = \"%s.rs\"]\nmod %s;\n" % (n, n))
            for s in m.starts:
                if m.kind == "extern":
                    arms.append('        ("%s", "%s") => Some(match shape {\n'
                                '            b\'R\' => render(%s::%sParser::new().parse(ResultIter { inp, pos: 0 })),\n'
                                '            _ => render(%s::%sParser::new().parse(TripleIter { inp, pos: 0 })),\n'
                                '        }),\n' % (n, s, n, s, n, s))
                elif m.kind == "cloc":
                    arms.append('        ("%s", "%s") => Some(render(%s::%sParser::new().parse(CLocIter { inp, pos: 0 }))),\n' % (n, s, n, s))
                elif m.kind == "none":
                    pass    # compile-only module (C19): no dispatch arm
                elif m.kind == "builtin":
                    arms.append('        ("%s", "%s") => Some(render(%s::%sParser::new().parse(&inp.text))),\n' % (n, s, n, s))
                else:
                    raise core.HarnessError("unknown module kind " + m.kind)
        with open(os.path.join(self.src, "modules.rs"), "w") as f:
            f.write("".join(mods))
            f.write("\nfn dispatch(module: &str, start: &str, shape: u8, inp: &Input) -> Option<String> {\n    match (module, start) {\n")
            f.write("".join(arms))
            f.write("        _ => None,\n    }\n}\n")

    def build(self, max_rounds=6):
        """Compile all accepted modules. Modules whose generated code rustc rejects are dropped
        (recorded in compile_failures with the rustc diagnostics) and the rest is rebuilt."""
        names = [n for n, m in self.modules.items() if m.status == "ok"]
        t0 = time.time()
        for rnd in range(max_rounds):
            self._write_crate(names)
            rc, out, err, to = core.cargo(["build", "--offline", "--quiet"], self.dir, self.target, timeout=3000)
            if rc == 0:
                break
            if to:
                raise core.HarnessError("subject build timed out")
            bad = set(re.findall(r"-->\s+src/([A-Za-z0-9_]+)\.rs:", err))
            bad -= {"support", "driver", "modules"}
            bad &= set(names)
            if not bad:
                raise core.HarnessError("subject crate does not build and no generated module is implicated:\n" + err[-6000:])
            for b in bad:
                msgs = []
                for blk in err.split("\n\n"):
                    if ("src/%s.rs:" % b) in blk:
                        msgs.append(blk.strip())
                self.compile_failures[b] = "\n\n".join(msgs[:4])[:6000]
                self.modules[b].compiled = False
            names = [n for n in names if n not in bad]
        else:
            raise core.HarnessError("subject crate still fails after %d rounds" % max_rounds)
        for n in names:
            self.modules[n].compiled = True
        self.bin = os.path.join(self.target, "debug", "subject")
        # keep a private copy: the shared target dir is reused by the next subject
        priv = os.path.join(self.dir, "subject.bin")
        shutil.copy(self.bin, priv)
        self.bin = priv
        core.log("[subject] %d modules compiled (%d rejected by rustc) in %.1fs" % (
            len(names), len(self.compile_failures), time.time() - t0))
        return names

    # -- execution ----------------------------------------------------------------------------
    def run(self, lines, timeout_per_shard=600, jobs=None):
        """lines: list of workload lines (tab separated, first field = unique int index).
        Returns dict idx -> record; a record is the parsed JSON line, or
        {'crash': signal/rc, 'stderr': ...} for an execution that killed the child, or
        {'timeout': True} when the watchdog fired on it (inconclusive)."""
        jobs = jobs or core.NCPU
        if not lines:
            return {}
        nshard = max(1, min(jobs, (len(lines) + 199) // 200))
        shards = [lines[i::nshard] for i in range(nshard)]
        wdir = core.ensure_dir(os.path.join(self.dir, "workload"))

        def run_shard(k):
            shard = shards[k]
            path = os.path.join(wdir, "w%d.tsv" % k)
            with open(path, "w") as f:
                f.write("\n".join(shard) + "\n")
            res = {}
            skip = 0
            guard = 0
            while skip < len(shard) and guard < 200:
                guard += 1
                rc, out, err, to = core.run([self.bin, path, str(skip)], timeout=timeout_per_shard,
                                            rlimit_as=4 << 30)
                n = 0
                for ln in out.decode(errors="replace").splitlines():
                    try:
                        rec = json.loads(ln)
                    except ValueError:
                        continue
                    res[rec["i"]] = rec
                    n += 1
                if rc == 0 and not to:
                    break
                # the execution after the last reported one killed the child
                culprit = skip + n
                if culprit >= len(shard):
                    break
                idx = int(shard[culprit].split("\t", 1)[0])
                if to:
                    res[idx] = {"i": idx, "timeout": True}
                else:
                    res[idx] = {"i": idx, "crash": rc, "stderr": err.decode(errors="replace")[-2000:]}
                skip = culprit + 1
            return res

        allres = {}
        for r in core.tmap(run_shard, list(range(nshard)), jobs):
            allres.update(r)
        return allres


def wl_line(idx, module, start, toks=None, shape="T", budget=10**7, err_at=None, fails=None, text=None):
    """toks: list of (kind, l, r)."""
    return "\t".join([
        str(idx), module, start, shape, str(budget),
        "-" if err_at is None else str(err_at),
        "-" if not fails else ",".join("%d:%d" % f for f in fails),
        "-" if not toks else ",".join("%d:%d:%d" % t for t in toks),
        "-" if text is None or text == "" else text.encode().hex(),
    ])
