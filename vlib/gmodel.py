"""Surface grammar model, printer to .lalrpop text, reference desugaring to a plain CFG with
semantics (DESIGN 1.3/1.4, appendix A.2/A.3).  The desugaring is written from the LALRPOP book
and the property statements, not from LALRPOP's code."""
from dataclasses import dataclass, field
from typing import Any, List, Optional

from .earley import CFG, Prod


@dataclass
class Sym:
    k: str                       # 't','n','rep','grp','mac','L','R','err'
    name: Optional[str] = None
    op: Optional[str] = None     # rep: '*','+','?'
    inner: Any = None            # rep: Sym
    items: Any = None            # grp: [Item]
    args: Any = None             # mac: [Sym]


@dataclass
class Item:
    sym: Sym
    bind: Any = None             # None | ('sel',) | ('name', n, mut) | ('pat', pattern)


@dataclass
class Alt:
    items: List[Item]
    action: Optional[str] = None  # None | 'named' | 'angle' | 'angle_multi' | 'errnode' | 'loc'
    fallible: bool = False
    pid: Optional[int] = None
    cond: Any = None              # (param, op, literal)
    attrs: List[str] = field(default_factory=list)
    code: Optional[str] = None    # verbatim action override (printer only)
    prec: Any = None              # (level:int|None, assoc:str|None) -> #[precedence]/#[assoc] attributes


@dataclass
class NT:
    name: str
    alts: List[Alt]
    ty: Optional[str] = None      # printed annotation (None = inferred)
    pub: bool = False
    inline: bool = False
    params: Optional[List[str]] = None
    attrs: List[str] = field(default_factory=list)
    unit: bool = False            # declared/inferred type is ()


@dataclass
class Grammar:
    nts: List[NT]
    terms: List[str]              # terminal names in kind order: kind i <-> terms[i]
    header: str = ""
    unused_terms: List[str] = field(default_factory=list)   # declared in extern but unused
    loc_type: str = "usize"

    def nt(self, name):
        for n in self.nts:
            if n.name == name:
                return n
        return None

    def starts(self):
        return [n.name for n in self.nts if n.pub]


def T(name):
    return Sym("t", name)


def N(name):
    return Sym("n", name)


def Rep(inner, op):
    return Sym("rep", op=op, inner=inner)


def Grp(items):
    return Sym("grp", items=items)


def Mac(name, args):
    return Sym("mac", name, args=args)


# ------------------------------------------------------------------------------------------
# printer


def term_text(name):
    # terminals are quoted literals whose text is the name; keep them free of escapes.
    # A name starting with "$" is a bare (identifier) terminal: "$X" is declared and used as `X`.
    if name.startswith("$"):
        return name[1:]
    return '"%s"' % name


def sym_text(s):
    if s.k == "t":
        return term_text(s.name)
    if s.k == "n":
        return s.name
    if s.k == "rep":
        return sym_text(s.inner) + s.op
    if s.k == "grp":
        return "(" + " ".join(item_text(i) for i in s.items) + ")"
    if s.k == "mac":
        return s.name + "<" + ", ".join(sym_text(a) for a in s.args) + ">"
    if s.k == "L":
        return "@L"
    if s.k == "R":
        return "@R"
    if s.k == "err":
        return "!"
    raise ValueError(s.k)


def pat_text(p):
    if isinstance(p, str):
        return p
    return "(" + ", ".join(pat_text(x) for x in p) + ")"


def pat_names(p):
    if isinstance(p, str):
        return [p]
    out = []
    for x in p:
        out += pat_names(x)
    return out


def pat_paths(p, prefix=()):
    """-> list of index paths for each leaf name, in order."""
    if isinstance(p, str):
        return [prefix]
    out = []
    for i, x in enumerate(p):
        out += pat_paths(x, prefix + (i,))
    return out


def item_text(it):
    s = sym_text(it.sym)
    b = it.bind
    if b is None:
        return s
    if b[0] == "sel":
        return "<" + s + ">"
    if b[0] == "name":
        return "<%s%s:%s>" % ("mut " if b[2] else "", b[1], s)
    if b[0] == "pat":
        return "<%s:%s>" % (pat_text(b[1]), s)
    raise ValueError(b)


def bound_names(alt):
    out = []
    for it in alt.items:
        b = it.bind
        if b and b[0] == "name":
            out.append(b[1])
        elif b and b[0] == "pat":
            out += pat_names(b[1])
    return out


def action_text(alt):
    if alt.code is not None:
        return alt.code
    if alt.action is None:
        return ""
    p = alt.pid
    if alt.action == "named":
        # `order` (optional): the action uses the bound names in this order instead of their
        # positional order (two alternatives may then carry the very same action text)
        kids = ", ".join("%s.to_v()" % n for n in (getattr(alt, "order", None) or bound_names(alt)))
    elif alt.action == "angle":
        kids = "(<>,).to_v()"
    elif alt.action == "angle_multi":
        n = len(selected(alt))
        kids = ", ".join("<>.to_v()" for _ in range(n))
    elif alt.action == "none_sel":
        kids = ""
    else:
        raise ValueError(alt.action)
    if alt.fallible:
        return " =>? { fa::<usize, Tok>(%d)?; Ok(V::node(%d, vec![%s])) }" % (p, p, kids)
    return " => { ev(%d); V::node(%d, vec![%s]) }" % (p, p, kids)


def alt_text(alt):
    s = ""
    for a in alt.attrs:
        s += a + " "
    s += " ".join(item_text(i) for i in alt.items)
    if alt.cond:
        s += ' if %s %s "%s"' % alt.cond
    s += action_text(alt)
    return s.strip() if s.strip() else "() "  # never produced: empty alt needs an action or `=> ()`


def nt_text(nt):
    s = ""
    for a in nt.attrs:
        s += a + "\n"
    if nt.inline:
        s += "#[inline]\n"
    if nt.pub:
        s += "pub "
    s += nt.name
    if nt.params:
        s += "<" + ", ".join(nt.params) + ">"
    if nt.ty:
        s += ": " + nt.ty
    s += " = {\n"
    for a in nt.alts:
        t = alt_text_full(a, nt)
        s += "    " + t + ",\n"
    s += "};\n"
    return s


def alt_text_full(alt, nt):
    parts = list(alt.attrs)
    if alt.prec:
        if alt.prec[0] is not None:
            parts.append('#[precedence(level="%d")]' % alt.prec[0])
        if alt.prec[1] is not None:
            parts.append('#[assoc(side="%s")]' % alt.prec[1])
    body = " ".join(item_text(i) for i in alt.items)
    if alt.cond:
        body += ' if %s %s "%s"' % alt.cond
    act = action_text(alt)
    if not alt.items and not act:
        act = " => ()" if nt.unit else " => ()"
    return (" ".join(parts) + " " + body + act).strip()


CONFIG_MARK = "/*@CONFIG@*/"


def grammar_text(g, cfg_attrs=""):
    s = "use crate::support::*;\n"
    s += g.header
    s += cfg_attrs + CONFIG_MARK + "\ngrammar;\n\n"
    s += "extern {\n    type Location = %s;\n    type Error = UErr;\n    enum Tok {\n" % g.loc_type
    for i, t in enumerate(g.terms):
        s += "        %s => Tok { kind: K%d, .. },\n" % (term_text(t), i)
    s += "    }\n}\n\n"
    for nt in g.nts:
        s += nt_text(nt) + "\n"
    return s


# ------------------------------------------------------------------------------------------
# selection rule (appendix A.2)


def selected(alt_or_items):
    items = alt_or_items.items if hasattr(alt_or_items, "items") and not isinstance(alt_or_items, list) else alt_or_items
    named = [i for i, it in enumerate(items) if it.bind and it.bind[0] in ("name", "pat")]
    if named:
        return named
    sel = [i for i, it in enumerate(items) if it.bind and it.bind[0] == "sel"]
    if sel:
        return sel
    return list(range(len(items)))


# ------------------------------------------------------------------------------------------
# reference desugaring: surface grammar -> plain CFG with semantics


class Desugar:
    def __init__(self, g, active_inline=False):
        self.g = g
        self.prods = []
        self.fresh = 0
        self.terms = set(g.terms)
        self.macros = {n.name: n for n in g.nts if n.params}
        self.minst = {}
        self.sugar_nts = set()     # names of nonterminals introduced for sugar (inline-like)
        self.share = True
        self.memo = {}

    def fresh_name(self, base):
        self.fresh += 1
        return "%s~%d" % (base, self.fresh)

    def run(self):
        for nt in self.g.nts:
            if nt.params:
                continue
            self.do_nt(nt.name, nt, {})
        return CFG(self.prods, self.terms, self.g.starts())

    def do_nt(self, lhs, nt, env):
        if any(a.prec for a in nt.alts):
            return self.do_prec_nt(lhs, nt, env)
        for alt in nt.alts:
            if alt.cond and not self.cond_holds(alt.cond, env):
                continue
            self.do_alt(lhs, alt, env, unit=nt.unit)

    # reference tier builder for #[precedence]/#[assoc] (DESIGN appendix A.4, from the statement)
    def do_prec_nt(self, lhs, nt, env):
        level, assoc = None, "all"
        ann = []
        for alt in nt.alts:
            if alt.cond and not self.cond_holds(alt.cond, env):
                continue
            l, a = alt.prec if alt.prec else (None, None)
            if l is not None:
                level, assoc = l, "all"
            if a is not None:
                assoc = a
            if level is None:
                raise ValueError("first alternative without precedence")
            ann.append((level, assoc, alt))
        levels = sorted({l for l, _, _ in ann})
        tier = {}
        for i, l in enumerate(levels):
            tier[l] = lhs if i == len(levels) - 1 else "%s~lvl%d" % (lhs, l)
        for i, l in enumerate(levels):
            cur = tier[l]
            prev = tier[levels[i - 1]] if i > 0 else None
            for (al, assoc, alt) in ann:
                if al != l:
                    continue
                occ = self._count_occ(alt.items, nt.name)
                if assoc in ("left", "right", "none") and prev is None:
                    raise ValueError("associativity on the first level")
                plan = []
                for k in range(occ):
                    if assoc == "all":
                        plan.append(cur)
                    elif assoc == "none":
                        plan.append(prev)
                    elif assoc == "left":
                        plan.append(cur if k == 0 else prev)
                    elif assoc == "right":
                        plan.append(cur if k == occ - 1 else prev)
                    else:
                        raise ValueError(assoc)
                it = iter(plan)
                items2 = [Item(self._rewrite(x.sym, nt.name, it), x.bind) for x in alt.items]
                alt2 = Alt(items2, action=alt.action, fallible=alt.fallible, pid=alt.pid)
                self.do_alt(cur, alt2, env, unit=nt.unit)
            if prev is not None:
                self.prods.append(Prod(cur, [prev], ("pick", 0), meta="tier"))

    def _count_occ(self, items, name):
        n = 0
        for it in items:
            n += self._count_sym(it.sym, name)
        return n

    def _count_sym(self, s, name):
        if s.k == "n":
            return 1 if s.name == name else 0
        if s.k == "rep":
            return self._count_sym(s.inner, name)
        if s.k == "grp":
            return sum(self._count_sym(i.sym, name) for i in s.items)
        if s.k == "mac":
            return sum(self._count_sym(a, name) for a in s.args)
        return 0

    def _rewrite(self, s, name, it):
        if s.k == "n":
            return N(next(it)) if s.name == name else s
        if s.k == "rep":
            return Sym("rep", op=s.op, inner=self._rewrite(s.inner, name, it))
        if s.k == "grp":
            return Sym("grp", items=[Item(self._rewrite(i.sym, name, it), i.bind) for i in s.items])
        if s.k == "mac":
            return Sym("mac", s.name, args=[self._rewrite(a, name, it) for a in s.args])
        return s

    def cond_holds(self, cond, env):
        import re as _re
        param, op, lit = cond
        arg = env.get(param)
        if arg is None or arg.k != "t":
            raise ValueError("condition on non-literal")
        text = arg.name
        if op == "==":
            return text == lit
        if op == "!=":
            return text != lit
        if op == "~~":
            return _re.search(lit, text) is not None
        if op == "!~":
            return _re.search(lit, text) is None
        raise ValueError(op)

    def subst(self, s, env):
        if s.k == "n" and s.name in env:
            return env[s.name]
        if s.k == "rep":
            return Sym("rep", op=s.op, inner=self.subst(s.inner, env))
        if s.k == "grp":
            return Sym("grp", items=[Item(self.subst(i.sym, env), i.bind) for i in s.items])
        if s.k == "mac":
            return Sym("mac", s.name, args=[self.subst(a, env) for a in s.args])
        return s

    def sym(self, s, env):
        """plain symbol name for surface symbol s (creating fresh nonterminals for sugar)."""
        s = self.subst(s, env)
        if s.k == "t":
            return s.name
        if s.k == "n":
            return s.name
        # Identical uses (same printed form) denote the same instantiation, as in any macro
        # expansion by substitution; this matters for C03 (two copies of `"d"+` would add a
        # reduce/reduce conflict the shared one does not have), not for language or values.
        key = None
        if s.k in ("rep", "grp", "mac") and self.share:
            key = sym_text(s)
            if key in self.memo:
                return self.memo[key]
        if s.k == "rep":
            x = self.sym(s.inner, {})
            r = self.fresh_name("rep" + {"*": "S", "+": "P", "?": "Q"}[s.op])
            if key:
                self.memo[key] = r
            if s.op == "?":
                # `X?` behaves as an inlined nonterminal: X => Some(<>) | => None
                self.sugar_nts.add(r)
                self.prods.append(Prod(r, [x], ("some", 0), meta="opt"))
                self.prods.append(Prod(r, [], ("none",), meta="opt"))
            elif s.op == "+":
                # `X+` is a real left-recursive nonterminal
                self.prods.append(Prod(r, [x], ("one", 0), meta="plus"))
                self.prods.append(Prod(r, [r, x], ("push", 0, 1), meta="plus"))
            else:
                # `X*` behaves as an inlined nonterminal: => vec![] | <v:X+> => v
                self.sugar_nts.add(r)
                rp = self.fresh_name("repP")
                self.prods.append(Prod(rp, [x], ("one", 0), meta="plus"))
                self.prods.append(Prod(rp, [rp, x], ("push", 0, 1), meta="plus"))
                self.prods.append(Prod(r, [], ("nil",), meta="star"))
                self.prods.append(Prod(r, [rp], ("pick", 0), meta="star"))
            return r
        if s.k == "grp":
            r = self.fresh_name("grp")
            if key:
                self.memo[key] = r
            self.sugar_nts.add(r)
            alt = Alt(items=s.items, action=None)
            self.do_alt(r, alt, {}, unit=False, meta="grp")
            return r
        if s.k == "mac":
            m = self.macros[s.name]
            key = s.name + "<" + ",".join(sym_text(a) for a in s.args) + ">"
            # each use gets its own fresh nonterminal ("distinct instantiations never interfere")
            r = self.fresh_name("mac_" + s.name)
            if key:
                self.memo[key] = r
            env2 = dict(zip(m.params, s.args))
            self.do_nt(r, m, env2)
            return r
        if s.k in ("L", "R", "err"):
            r = self.fresh_name({"L": "lookL", "R": "lookR", "err": "err"}[s.k])
            if s.k == "err":
                # `!` is a terminal of the reference grammar (used by C16's oracle)
                self.terms.add("!")
                return "!"
            self.sugar_nts.add(r)
            self.prods.append(Prod(r, [], ("look" + s.k,), meta="look"))
            return r
        raise ValueError(s.k)

    def do_alt(self, lhs, alt, env, unit=False, meta=None):
        rhs = [self.sym(it.sym, env) for it in alt.items]
        sel = selected(alt.items)
        if alt.action is None:
            if unit:
                sem = ("unit",)
            elif len(sel) == 1:
                sem = ("pick", sel[0])
            else:
                sem = ("tup", sel)
            self.prods.append(Prod(lhs, rhs, sem, pid=None, meta=meta))
            return
        if alt.action == "named":
            exprs = []
            for i, it in enumerate(alt.items):
                b = it.bind
                if b and b[0] == "name":
                    exprs.append(("c", i))
                elif b and b[0] == "pat":
                    for path in pat_paths(b[1]):
                        exprs.append(("c", i) + tuple(path))
            if getattr(alt, "order", None):
                byname = {}
                k = 0
                for i, it in enumerate(alt.items):
                    b = it.bind
                    if b and b[0] == "name":
                        byname[b[1]] = exprs[k]
                        k += 1
                    elif b and b[0] == "pat":
                        for nm in pat_names(b[1]):
                            byname[nm] = exprs[k]
                            k += 1
                exprs = [byname[nm] for nm in alt.order]
        elif alt.action == "angle":
            exprs = [("tupof", [("c", i) for i in sel])]
        elif alt.action == "angle_multi":
            exprs = [("c", i) for i in sel]
        elif alt.action == "none_sel":
            exprs = []
        else:
            raise ValueError(alt.action)
        self.prods.append(Prod(lhs, rhs, ("node", alt.pid, exprs), pid=alt.pid, fallible=alt.fallible, meta=meta))


def desugar(g):
    d = Desugar(g)
    cfg = d.run()
    cfg.sugar_nts = d.sugar_nts
    # nonterminals that behave as inlined: sugar + user #[inline]
    cfg.inline_nts = set(d.sugar_nts) | {n.name for n in g.nts if n.inline}
    return cfg
