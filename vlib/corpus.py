"""Grammar texts used by the CLI-level checks (C20, C24, C21...): generator output of every
profile + the repository's own .lalrpop files (only generated, never compiled)."""
import glob
import os

from . import core, gen, gen2, gen3, gmodel, lexgen


def repo_files(maxlen=40000):
    files = sorted(glob.glob(os.path.join(core.REPO, "**", "*.lalrpop"), recursive=True))
    out = []
    for f in files:
        if "/target/" in f:
            continue
        try:
            t = open(f, encoding="utf-8").read()
        except Exception:
            continue
        if len(t) <= maxlen:
            out.append((os.path.relpath(f, core.REPO), t))
    return out


def multiline_grammar(rng):
    """action code, string and raw-string literals and comments that span several indented lines"""
    lit = rng.choice(['"usage:\n    tool <command>\n\ttabbed\n  two"', 'r#"raw\n      indented "quote"\n\tline"#', '"a\\\n        continued"', '"x"'])
    body = rng.choice(["{\n        let s = %s;\n        s.len() as u32\n    }", "{\n        /* block\n           comment */\n        let t = %s; // trailing\n        t.len() as u32 }"]) % lit
    return ('grammar;\nextern { type Location = usize; enum Tok { "a" => Tok::A, "b" => Tok::B } }\n'
            'pub S: u32 = {\n    "a" => %s,\n    "b" <s:S> =>\n        s\n            + 1,\n};\n' % body)


def selfgroup_grammar(rng):
    """tuple patterns on groups that contain the host (or a mutually recursive) nonterminal:
    type inference has to look through the group while the host is still being inferred"""
    names = ["A", "B", "C"][:rng.randint(1, 3)]
    terms = ["a", "b", "c", "d", "e", "f", "g"]
    out = "use crate::support::*;\ngrammar;\nextern {\n    type Location = usize;\n    type Error = UErr;\n    enum Tok {\n"
    for i, t in enumerate(terms):
        out += '        "%s" => Tok { kind: K%d, .. },\n' % (t, i)
    out += "    }\n}\n"
    out += "pub S: V = { <x:%s> \"g\" => V::node(0, vec![x.to_v()]) };\n" % names[0]
    pid = 1
    for i, n in enumerate(names):
        inner = rng.choice(names)
        lead = terms[i * 2]
        out += "%s: V = {\n" % n
        out += '    <(p, q, r):("%s" %s "%s")> <w:"%s"> => V::node(%d, vec![p.to_v(), q.to_v(), r.to_v(), w.to_v()]),\n' % (lead, inner, rng.choice(terms[:4]), rng.choice(terms[:6]), pid)
        out += '    "%s" => V::node(%d, vec![]),\n};\n' % (terms[i * 2 + 1], pid + 1)
        pid += 2
    return out


def generated(rng, n):
    out = []
    makers = [
        ("core", lambda r: gmodel.grammar_text(gen.gen_core(r, fallible=0.2, sugar=0.2))),
        ("loc", lambda r: gmodel.grammar_text(gen.gen_loc(r))),
        ("macros", lambda r: gmodel.grammar_text(gen2.gen_macros(r))),
        ("prec", lambda r: gmodel.grammar_text(gen2.gen_prec(r))),
        ("recovery", lambda r: gmodel.grammar_text(gen2.gen_recovery(r))),
        ("lane", lambda r: gmodel.grammar_text(gen3.gen_lane_stress(r))),
        ("lexer", lambda r: lexgen.gen_spec(r, match_p=0.7).grammar_text()),
    ]
    makers.append(("multiline", multiline_grammar))
    makers.append(("selfgroup", selfgroup_grammar))
    makers.append(("patterns", lambda r: gmodel.grammar_text(gen.gen_core(r, pat=0.95, sugar=0.45, modes=("user",)))))
    i = 0
    while len(out) < n:
        name, mk = makers[i % len(makers)]
        i += 1
        try:
            t = mk(rng)
        except Exception:
            continue
        cfg = rng.choice(["", "", "#[recursive_ascent]", "#[LALR]"])
        if name == "recovery" and "recursive" in cfg:
            cfg = ""
        out.append(("gen_%s_%d" % (name, len(out)), t.replace(gmodel.CONFIG_MARK, cfg)))
    return out
