"""Python side of rust/tools (vtools): build once per subject tree, talk over a line protocol."""
import json
import os
import shutil
import subprocess
import threading

from . import core

_bin = None
_lock = threading.Lock()


def build():
    global _bin
    with _lock:
        if _bin:
            return _bin
        src = os.path.join(core.VERIF, "rust", "tools")
        dst = core.ensure_dir(os.path.join(core.TARGET, "tools-src-" + core.repo_tag()))
        core.ensure_dir(os.path.join(dst, "src"))
        toml = open(os.path.join(src, "Cargo.toml")).read().replace("@REPO@", core.REPO)
        old = None
        p = os.path.join(dst, "Cargo.toml")
        if os.path.exists(p):
            old = open(p).read()
        if old != toml:
            open(p, "w").write(toml)
        for fn in ("Cargo.lock",):
            shutil.copy(os.path.join(src, fn), os.path.join(dst, fn))
        ms = open(os.path.join(src, "src", "main.rs")).read()
        mp = os.path.join(dst, "src", "main.rs")
        if not os.path.exists(mp) or open(mp).read() != ms:
            open(mp, "w").write(ms)
        td = os.path.join(core.TARGET, "tools-" + core.repo_tag())
        rc, out, err, to = core.cargo(["build", "--offline", "--quiet"], dst, td, timeout=1800)
        if rc != 0:
            raise core.HarnessError("cannot build vtools:\n" + err[-3000:])
        _bin = os.path.join(td, "debug", "vtools")
        return _bin


class Tool:
    """one vtools child process (not thread-safe: use one per thread)"""

    def __init__(self):
        self.p = subprocess.Popen([build()], stdin=subprocess.PIPE, stdout=subprocess.PIPE, stderr=subprocess.DEVNULL,
                                  env=core.BASE_ENV)

    def call(self, req):
        self.p.stdin.write((json.dumps(req) + "\n").encode())
        self.p.stdin.flush()
        line = self.p.stdout.readline()
        if not line:
            raise core.HarnessError("vtools died on request %s" % json.dumps(req)[:300])
        return json.loads(line)

    def close(self):
        try:
            self.p.stdin.close()
            self.p.wait(timeout=5)
        except Exception:
            self.p.kill()


_tls = threading.local()


def tool():
    t = getattr(_tls, "tool", None)
    if t is None or t.p.poll() is not None:
        t = Tool()
        _tls.tool = t
    return t


def call(req):
    return tool().call(req)
