"""Reference semantics on plain CFGs: Earley recogniser / parser (membership, viable prefixes,
valid next terminals, derivation trees, ambiguity detection) and the reference evaluator
(DESIGN appendix A).  Written from the textbook; shares nothing with LALRPOP."""
import sys

sys.setrecursionlimit(20000)


class Prod:
    __slots__ = ("lhs", "rhs", "sem", "pid", "fallible", "idx", "meta")

    def __init__(self, lhs, rhs, sem, pid=None, fallible=False, meta=None):
        self.lhs = lhs
        self.rhs = list(rhs)
        self.sem = sem
        self.pid = pid
        self.fallible = fallible
        self.idx = None
        self.meta = meta

    def __repr__(self):
        return "%s -> %s" % (self.lhs, " ".join(self.rhs) or "ε")


class CFG:
    def __init__(self, prods, terms, starts):
        self.prods = list(prods)
        self.terms = set(terms)
        self.starts = list(starts)
        self._prep()

    def _prep(self):
        self.by_lhs = {}
        for i, p in enumerate(self.prods):
            p.idx = i
            self.by_lhs.setdefault(p.lhs, []).append(p)
        self.nts = set(self.by_lhs)
        for p in self.prods:
            for s in p.rhs:
                if s not in self.terms:
                    self.nts.add(s)
        # productive
        prod = set()
        ch = True
        while ch:
            ch = False
            for p in self.prods:
                if p.lhs not in prod and all(s in self.terms or s in prod for s in p.rhs):
                    prod.add(p.lhs)
                    ch = True
        self.productive = prod
        self.live = [p for p in self.prods if all(s in self.terms or s in prod for s in p.rhs)]
        self.live_by_lhs = {}
        for p in self.live:
            self.live_by_lhs.setdefault(p.lhs, []).append(p)
        nul = set()
        ch = True
        while ch:
            ch = False
            for p in self.live:
                if p.lhs not in nul and all(s in nul for s in p.rhs):
                    nul.add(p.lhs)
                    ch = True
        self.nullable = nul

    def reachable(self, start):
        seen = {start}
        st = [start]
        while st:
            x = st.pop()
            for p in self.by_lhs.get(x, []):
                for s in p.rhs:
                    if s not in self.terms and s not in seen:
                        seen.add(s)
                        st.append(s)
        return seen

    def all_productive(self, start):
        return all(x in self.productive for x in self.reachable(start))

    def text(self):
        return "\n".join(repr(p) for p in self.prods)


class Chart:
    """Earley chart for one (cfg, start, tokens)."""

    def __init__(self, cfg, start, toks, stop_at_dead=True):
        self.cfg = cfg
        self.start = start
        self.toks = list(toks)
        n = len(self.toks)
        self.sets = []
        self.done = set()        # (X, i, j) completed
        self.dead_at = None      # least k such that prefix of length k is not viable
        self._endidx = None
        self._run(stop_at_dead)

    def _run(self, stop_at_dead):
        cfg = self.cfg
        toks = self.toks
        n = len(toks)
        START = "$start"
        # item: (prod_idx or -1, dot, origin); prod -1 is $start -> start
        rhs_of = lambda pi: (self.start,) if pi == -1 else cfg.prods[pi].rhs
        lhs_of = lambda pi: START if pi == -1 else cfg.prods[pi].lhs
        cur = {(-1, 0, 0)}
        self.sets = []
        for k in range(n + 1):
            items = set()
            agenda = list(cur)
            items.update(cur)
            while agenda:
                it = agenda.pop()
                pi, dot, org = it
                rhs = rhs_of(pi)
                if dot < len(rhs):
                    s = rhs[dot]
                    if s not in cfg.terms:
                        for p in cfg.live_by_lhs.get(s, ()):
                            ni = (p.idx, 0, k)
                            if ni not in items:
                                items.add(ni)
                                agenda.append(ni)
                        if s in cfg.nullable:
                            ni = (pi, dot + 1, org)
                            if ni not in items:
                                items.add(ni)
                                agenda.append(ni)
                        # completions of s that already happened at (k,k) are covered by nullable
                else:
                    X = lhs_of(pi)
                    self.done.add((X, org, k))
                    if org == k:
                        continue  # nullable completion handled by the nullable shortcut
                    for (qi, qd, qo) in list(self.sets[org]) if org < k else []:
                        qr = rhs_of(qi)
                        if qd < len(qr) and qr[qd] == X:
                            ni = (qi, qd + 1, qo)
                            if ni not in items:
                                items.add(ni)
                                agenda.append(ni)
            self.sets.append(items)
            if k < n:
                t = toks[k]
                nxt = set()
                for (pi, dot, org) in items:
                    rhs = rhs_of(pi)
                    if dot < len(rhs) and rhs[dot] == t:
                        nxt.add((pi, dot + 1, org))
                if not nxt:
                    self.dead_at = k + 1
                    if stop_at_dead:
                        return
                cur = nxt
        # nullable nonterminals complete at (k,k)
        for k in range(len(self.sets)):
            for X in cfg.nullable:
                self.done.add((X, k, k))

    def accepted(self):
        n = len(self.toks)
        return self.dead_at is None and len(self.sets) == n + 1 and ("$start", 0, n) in self.done

    def viable(self, k):
        """Is the prefix of length k a prefix of some sentence? (grammar must be productive)"""
        return self.dead_at is None or k < self.dead_at

    def next_terminals(self, k):
        """(set of terminals a with prefix_k . a viable, eof_ok)"""
        cfg = self.cfg
        out = set()
        eof = False
        for (pi, dot, org) in self.sets[k]:
            rhs = (self.start,) if pi == -1 else cfg.prods[pi].rhs
            if dot < len(rhs):
                if rhs[dot] in cfg.terms:
                    out.add(rhs[dot])
            elif pi == -1:
                eof = True
        return out, eof

    # ---- derivation trees ---------------------------------------------------------------
    def trees(self, limit=2):
        """Up to `limit` derivation trees of the whole input from start.
        tree = (Prod, [children]) | ('tok', i)."""
        if not self.accepted():
            return []
        return self._derive(self.start, 0, len(self.toks), limit, frozenset())

    def _derive(self, X, i, j, limit, active):
        cfg = self.cfg
        key = (X, i, j)
        if key in active:
            return []      # cyclic derivation (A =>+ A): cut, only acyclic trees are enumerated
        out = []
        active = active | {key}
        for p in cfg.live_by_lhs.get(X, ()):
            for kids in self._split(p.rhs, 0, i, j, limit - len(out), active, (i, j)):
                out.append((p, kids))
                if len(out) >= limit:
                    return out
        return out

    def _ends(self, X, i):
        e = self._endidx
        if e is None:
            e = {}
            for (Y, a, b) in self.done:
                e.setdefault((Y, a), []).append(b)
            for k in e:
                e[k].sort()
            self._endidx = e
        return e.get((X, i), ())

    def _split(self, rhs, pos, i, j, limit, active, pspan):
        """ways to derive rhs[pos:] over [i,j]; returns lists of child trees."""
        cfg = self.cfg
        if limit <= 0:
            return []
        if pos == len(rhs):
            return [[]] if i == j else []
        s = rhs[pos]
        res = []
        if s in cfg.terms:
            if i < j and self.toks[i] == s:
                for rest in self._split(rhs, pos + 1, i + 1, j, limit, active, pspan):
                    res.append([("tok", i)] + rest)
                    if len(res) >= limit:
                        break
            return res
        for m in self._ends(s, i):
            if m > j:
                break
            rests = self._split(rhs, pos + 1, m, j, limit - len(res), active, pspan)
            if not rests:
                continue
            heads = self._derive(s, i, m, limit - len(res), active if (i, m) == pspan else frozenset())
            for h in heads:
                for r in rests:
                    res.append([h] + r)
                    if len(res) >= limit:
                        return res
        return res


def recognize(cfg, start, toks):
    return Chart(cfg, start, toks).accepted()


# ------------------------------------------------------------------------------------------
# reference evaluator: values are JSON-like lists identical to the subject's rendering


def v_tok(kind, i):
    return ["T", kind, i]


def v_tup(vs):
    return ["P", list(vs)]


def v_list(vs):
    return ["V", list(vs)]


def v_opt(v):
    return ["O", v]


def v_node(p, kids):
    return ["N", p, list(kids)]


V_UNIT = "U"


class EvalFail(Exception):
    def __init__(self, err):
        self.err = err


class Evaluator:
    """Post-order evaluation of a derivation tree.  `fails` = list of (pid, k): the fallible
    action of production pid fails at its k-th invocation (k = -1: always)."""

    def __init__(self, tok_kinds, tok_spans=None, fails=(), inline_nts=()):
        self.tok_kinds = tok_kinds
        self.spans = tok_spans
        self.fails = list(fails)
        self.events = []
        self.origins = []        # parallel to events: (host sequence number, path of (child index, lhs) through inlined nodes)
        self._path = []
        self._host = 0
        self.occ = {}
        self.inline_nts = set(inline_nts)
        self.default_loc = 0

    def action_event(self, p):
        """log event of production p (if instrumented) and fail if told to."""
        if p.pid is None:
            return
        seq = len(self.events)
        self.events.append(p.pid)
        self.origins.append((self._host, tuple(self._path)))
        if p.fallible:
            occ = self.occ.get(p.pid, 0)
            self.occ[p.pid] = occ + 1
            for (fp, k) in self.fails:
                if fp == p.pid and (k < 0 or k == occ):
                    raise EvalFail((p.pid, seq))

    # Evaluation follows the order in which an LR parser runs things (appendix A.7/A.8):
    # real (non-inlined) nodes are evaluated in post-order; inlined nodes (sugar `?`, `*`,
    # groups, `@L`/`@R`, user `#[inline]` nonterminals) are evaluated when their host production
    # is reduced, left to right, inner first, just before the host's own action.
    def eval(self, tree):
        self.ntok = 0            # tokens shifted so far
        self.last_end = None     # end of the most recently completed real symbol
        self.res = {}            # id(node) -> (value, (start, end))  for real symbols
        v, span = self.eval_real(tree)
        return v

    def tok_span(self, i):
        if self.spans is not None:
            return self.spans[i]
        return (10 * i + 3, 10 * i + 7)

    def is_inline(self, node):
        return node[0] != "tok" and node[0].lhs in self.inline_nts

    def phase1(self, node):
        """evaluate the real symbols below `node` (through inlined nodes), left to right"""
        if node[0] == "tok":
            i = node[1]
            self.res[id(node)] = (v_tok(self.tok_kinds[i], i), self.tok_span(i))
            self.ntok += 1
            self.last_end = self.tok_span(i)[1]
        elif self.is_inline(node):
            for k in node[1]:
                self.phase1(k)
        else:
            self.eval_real(node)

    def flat(self, node):
        """real symbols contributed by node to its host production, in order"""
        if node[0] == "tok" or not self.is_inline(node):
            return [node]
        out = []
        for k in node[1]:
            out += self.flat(k)
        return out

    def eval_real(self, node):
        p, kids = node
        for k in kids:
            self.phase1(k)
        flat = []
        for k in kids:
            flat += self.flat(k)
        if flat:
            span = (self.res[id(flat[0])][1][0], self.res[id(flat[-1])][1][1])
        else:
            if self.ntok < len(self.tok_kinds):
                pos = self.tok_span(self.ntok)[0]
            elif self.last_end is not None:
                pos = self.last_end
            else:
                pos = self.default_loc
            span = (pos, pos)
        self._host += 1
        vals = self.alt_values(kids, flat, (span[0], span[1], True, True))
        self.action_event(p)
        v = self.apply(p.sem, vals, span)
        self.res[id(node)] = (v, span)
        self.last_end = span[1]
        return v, span

    def alt_values(self, kids, flat, host_pair):
        """values of the children of one alternative whose flattened real symbols are `flat`;
        inlined children are evaluated now (phase 2).  host_pair = (start, end, start_ok, end_ok).

        The property statement (C06) defines @L/@R through "the symbol that follows/precedes";
        it does not define the span of an *inlined item that expanded to nothing* (another
        @L/@R, an absent `X?`, an empty `X*`).  When the neighbour an item reads is such an item
        the value is unspecified: it is computed for the record but flagged, and rendered as
        ["L", "?"] which matches any location."""
        vals = []
        k = 0
        n = len(flat)
        flats = [None if (c[0] == "tok" or not self.is_inline(c)) else self.flat(c) for c in kids]
        nonempty = [True if f is None else bool(f) for f in flats]
        m = len(kids)
        for j, c in enumerate(kids):
            if flats[j] is None:
                vals.append(self.res[id(c)][0])
                k += 1
                continue
            fc = flats[j]
            if fc:
                pair = (self.res[id(fc[0])][1][0], self.res[id(fc[-1])][1][1], True, True)
            else:
                if k > 0:
                    st = self.res[id(flat[k - 1])][1][1]
                elif n > 0:
                    st = self.res[id(flat[0])][1][0]
                else:
                    st = host_pair[0]
                if k < n:
                    en = self.res[id(flat[k])][1][0]
                elif n > 0:
                    en = self.res[id(flat[n - 1])][1][1]
                else:
                    en = host_pair[1]
                # is the neighbour that defines start / end a symbol with a defined span?
                if j > 0:
                    st_ok = nonempty[j - 1]
                elif m > 1:
                    st_ok = nonempty[1]
                else:
                    st_ok = host_pair[2]
                if j + 1 < m:
                    en_ok = nonempty[j + 1]
                elif m > 1:
                    en_ok = nonempty[j - 1]
                else:
                    en_ok = host_pair[3]
                pair = (st, en, st_ok, en_ok)
            cp, ckids = c
            self._path.append((j, cp.lhs))
            cvals = self.alt_values(ckids, fc, pair)
            self.action_event(cp)
            self._path.pop()
            vals.append(self.apply(cp.sem, cvals, pair))
            k += len(fc)
        return vals

    def apply(self, sem, c, span=None):
        k = sem[0]
        if k == "lookL":
            return ["L", span[1] if span[3] else "?"]
        if k == "lookR":
            return ["L", span[0] if span[2] else "?"]
        if k == "unit":
            return V_UNIT
        if k == "pick":
            return c[sem[1]]
        if k == "tup":
            return v_tup([c[i] for i in sem[1]])
        if k == "node":
            return v_node(sem[1], [self.expr(e, c) for e in sem[2]])
        if k == "nil":
            return v_list([])
        if k == "one":
            return v_list([c[sem[1]]])
        if k == "push":
            return v_list(c[sem[1]][1] + [c[sem[2]]])
        if k == "some":
            return v_opt(c[sem[1]])
        if k == "none":
            return v_opt(None)
        raise ValueError("unknown sem %r" % (sem,))

    def expr(self, e, c):
        k = e[0]
        if k == "c":
            v = c[e[1]]
            for ix in e[2:]:
                assert v[0] == "P", v
                v = v[1][ix]
            return v
        if k == "tupof":
            return v_tup([self.expr(x, c) for x in e[1]])
        raise ValueError(e)


def evaluate(tree, tok_kinds, fails=(), spans=None, inline_nts=()):
    """-> ('ok', value, events) | ('fail', (pid, seq), events)"""
    ev = Evaluator(tok_kinds, tok_spans=spans, fails=fails, inline_nts=inline_nts)
    try:
        v = ev.eval(tree)
        return ("ok", v, ev.events)
    except EvalFail as f:
        return ("fail", f.err, ev.events)


def evaluate_origins(tree, tok_kinds, fails=(), spans=None, inline_nts=()):
    """like evaluate, plus for every logged event where it came from: (host reduction number,
    path of (child index, nonterminal) through the inlined nodes below the host production)"""
    ev = Evaluator(tok_kinds, tok_spans=spans, fails=fails, inline_nts=inline_nts)
    try:
        ev.eval(tree)
    except EvalFail:
        pass
    return list(ev.events), list(ev.origins)


def values_match(exp, got):
    """structural equality where the oracle's ["L", "?"] matches any location"""
    if isinstance(exp, list) and len(exp) == 2 and exp[0] == "L" and exp[1] == "?":
        return isinstance(got, list) and len(got) == 2 and got[0] == "L"
    if isinstance(exp, list) and isinstance(got, list):
        return len(exp) == len(got) and all(values_match(a, b) for a, b in zip(exp, got))
    return exp == got


def has_wildcard(v):
    if isinstance(v, list):
        if len(v) == 2 and v[0] == "L" and v[1] == "?":
            return True
        return any(has_wildcard(x) for x in v)
    return False
