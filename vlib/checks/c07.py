"""C07: table-driven and recursive-ascent parsers give identical results (pure differential
monitor; the Earley oracle only annotates witnesses)."""
import json

from .. import core, gen, pipeline
from ..subject import CONFIGS

ALL_TAGS = [c[0] for c in CONFIGS]
PAIRS = [("td_lane", "ra_lane"), ("td_lr1", "ra_lr1"), ("td_lalr", "ra_lalr")]


def monitor_pair(chk, case, e1, r1, e2, r2):
    """returns True when a comparison was made"""
    for r in (r1, r2):
        if r is None or r.get("timeout"):
            chk.inconclusive += 1
            return False
    for e, r in ((e1, r1), (e2, r2)):
        if "crash" in r or r.get("panic"):
            # panics/crashes are C08's; a one-sided panic is still a back-end disagreement
            pass
    a = pipeline.strip_expected(r1.get("r")) if r1.get("r") else {"panic": r1.get("panic"), "crash": r1.get("crash")}
    b = pipeline.strip_expected(r2.get("r")) if r2.get("r") else {"panic": r2.get("panic"), "crash": r2.get("crash")}
    if a != b:
        w = pipeline.witness(case, e1, r1, None, "backend_disagreement", {"table_driven": a, "recursive_ascent": b})
        w["sig"] = "backend_disagreement/" + e1.tag.split("_")[1]
        w["other_config"] = e2.tag
        chk.violation(w)
    return True


def run(tier, seed):
    chk = core.Check("C07", "exploration", tier, seed)
    rng = chk.rng("gen")
    n_gram = {"quick": 56, "thorough": 220}[tier]
    gk = dict(fallible=0.25, sugar=0.15)
    from .. import gen3

    def genf(r):
        k = r.random()
        if k < 0.4:
            return gen.gen_loc(r, **gk)
        if k < 0.5:
            return gen3.gen_prefix_overlap_loc(r)
        if k < 0.58:
            return gen3.gen_prefix_overlap(r)
        if k < 0.68:
            return gen3.gen_lane_stress(r)
        if k < 0.78:
            return gen3.gen_nullable_tails(r)
        return gen.gen_core(r, **gk)
    subj, cases = pipeline.make_cases(chk, rng, n_gram, genf, ALL_TAGS)
    irng = chk.rng("inputs")
    execs = []
    groups = []
    budget = {"quick": (120, 40, 50, 30), "thorough": (800, 120, 200, 60)}[tier]
    for c in cases:
        pipeline.inputs_for_case(irng, c, exhaustive_budget=budget[0], nrandom=budget[1], nmut=budget[2], max_len=budget[3])
        fall = [a.pid for nt in c.g.nts for a in nt.alts if a.fallible]
        for s, ins in c.inputs.items():
            for w in ins:
                gap = irng.choice([0, 5])
                shape = irng.choice("TR")
                err_at = irng.randint(0, len(w)) if (shape == "R" and irng.random() < 0.3) else None
                fails = None
                if fall and irng.random() < 0.4:
                    fails = [(irng.choice(fall), irng.choice([-1, 0, 1]))]
                grp = {}
                for tag in c.mods:
                    e = pipeline.Exec(c, s, w, gap, tag, shape=shape, err_at=err_at, fails=fails)
                    execs.append(e)
                    grp[tag] = e
                groups.append(grp)
    res = pipeline.run_execs(subj, execs)
    for grp in groups:
        for t1, t2 in PAIRS:
            if t1 in grp and t2 in grp:
                e1, e2 = grp[t1], grp[t2]
                r1, r2 = res.get(e1.idx), res.get(e2.idx)
                chk.evaluations += 1
                if monitor_pair(chk, e1.case, e1, r1, e2, r2):
                    kind = "ok" if (r1.get("r") and "ok" in r1["r"]) else (r1["r"].get("err") if r1.get("r") else "panic")
                    chk.count("result_" + str(kind))
                    if e1.toks:
                        chk.nontriv((core.sha(e1.case.text)[:10], t1, e1.start, tuple(e1.toks), e1.err_at, str(e1.fails)))
                    if chk.evaluations % 1499 == 1:
                        chk.sample({"grammar": e1.case.text, "pair": [t1, t2], "start": e1.start, "input": e1.toks,
                                    "err_at": e1.err_at, "fails": e1.fails, "table_driven": r1.get("r"), "recursive_ascent": r2.get("r")})
    chk.rule = "pair (table-driven, recursive-ascent) of parsers from one grammar under one construction, run on the same input / injected stream error / failing action; distinct by (grammar hash, construction, start, input, injection); non-trivial = non-empty input"
    chk.extra["grammars"] = len(cases)
    chk.extra["parsers_compiled"] = sum(len(c.mods) for c in cases)
    chk.extra["compile_failures"] = len(subj.compile_failures)
    chk.assumptions = ["differential: a defect shared by both back ends is invisible here (C01/C02/C04 cover it)"]
    return chk.finish(min_nontrivial=50, min_evaluations=1000)


def replay(path, seed):
    w = json.load(open(path))["witness"]
    from .. import gmodel, subject
    from ..replay import load_model
    chk = core.Check("C07", "exploration", "quick", 0)
    g = load_model(w["model"])
    case = pipeline.Case(0, g, w["text"], gmodel.desugar(g))
    subj = subject.Subject(chk.work)
    tags = [w["config"], w["other_config"]]
    for t in tags:
        m = subj.add("g0_" + t, w["text"], cfg=t, starts=g.starts())
        if m.status == "ok":
            case.mods[t] = m.name
    subj.build()
    es = [pipeline.Exec(case, w["start"], w["input"], w["gap"], t, shape=w["shape"], err_at=w["err_at"],
                        fails=[tuple(f) for f in w["fails"]] if w["fails"] else None) for t in tags if t in case.mods]
    res = pipeline.run_execs(subj, es)
    if len(es) == 2 and monitor_pair(chk, case, es[0], res.get(0), es[1], res.get(1)) and chk.violations:
        print("VIOLATION property=C07 replay=%s" % path)
        print("  " + chk.violations[0]["summary"][:600])
        return 1
    print("replay: no violation reproduced")
    return 0
