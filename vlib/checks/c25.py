"""C25: generated code is hygienic: renaming user identifiers changes nothing.
Differential: grammar G vs rho(G) for an injective renaming rho of nonterminals (macro names and
parameters included), bindings, grammar parameters and type parameters into an adversarial pool
(names LALRPOP derives internally, `__`-prefixed names, precedence-level look-alikes, the names
`v`/`e` bound by repeat expansion, Token/Parser, ...).  Compared: LALRPOP acceptance, rustc
acceptance, every parse result (both back ends)."""
import copy
import json
import re

from .. import core, gen, gen2, gmodel, pipeline, subject

NT_POOL = ["__0", "__1", "__action0", "__Symbol", "__Nonterminal", "__state0", "__sym0", "__lookahead", "__tokens", "__nt", "__parse__S", "__ToTriple",
           "__intern_token", "__lalrpop_util", "___0", "___action1", "__StateMachine", "__TERMINAL", "__reduce0", "__Token", "__token", "__start", "__end",
           "Token", "Parser", "Tok2", "S1", "S2", "E1", "E2", "E11", "A1", "B2", "__S", "S__", "__", "___", "Option_", "Vec_", "__T0", "__inline", "X_plus", "_S"]
BIND_POOL = ["__0", "__1", "__sym0", "__lookahead", "__lookbehind", "__tokens", "__start", "__end", "__temp0", "__nt", "v", "e", "__symbols", "__states", "__action",
             "__token", "__result", "___0", "errors", "__err", "__loc", "__l", "__r", "_x", "x__"]


def names_of(g):
    nts = []
    binds = set()
    for nt in g.nts:
        nts.append(nt.name)
        for p in nt.params or []:
            nts.append(p)
        for a in nt.alts:
            for it in a.items:
                _collect_binds(it, binds)
    return list(dict.fromkeys(nts)), sorted(binds)


def _collect_binds(it, out):
    b = it.bind
    if b and b[0] == "name":
        out.add(b[1])
    elif b and b[0] == "pat":
        out.update(gmodel.pat_names(b[1]))
    if it.sym.k == "grp":
        for x in it.sym.items:
            _collect_binds(x, out)
    elif it.sym.k == "rep" and it.sym.inner.k == "grp":
        for x in it.sym.inner.items:
            _collect_binds(x, out)


def derived_lookalikes(g):
    out = []

    def esc(name):
        return "".join(c if c.isalnum() else ("__" if c == "_" else "_%x" % ord(c)) for c in name)

    def esc1(name):
        return "".join(c if (c.isalnum() or c == "_") else "_%x" % ord(c) for c in name)

    def visit(s):
        if s.k == "rep":
            visit(s.inner)
            if s.inner.k == "n":
                t = s.inner.name + s.op
                out.extend([esc(t), esc1(t), s.inner.name + {"+": "_plus", "*": "_star", "?": "_opt"}[s.op]])
        elif s.k == "grp":
            for it in s.items:
                visit(it.sym)
        elif s.k == "mac":
            t = gmodel.sym_text(s)
            if all(a.k == "n" for a in s.args):
                out.extend([esc(t), esc1(t)])
            for a in s.args:
                visit(a)
    for nt in g.nts:
        for a in nt.alts:
            for it in a.items:
                visit(it.sym)
    import re as _re
    return [x for x in dict.fromkeys(out) if _re.match(r"^[A-Za-z_][A-Za-z0-9_]*$", x)]


def rename(g, ntmap, bmap):
    g2 = copy.deepcopy(g)

    def rs(s):
        if s.k == "n":
            s.name = ntmap.get(s.name, s.name)
        elif s.k == "rep":
            rs(s.inner)
        elif s.k == "grp":
            for it in s.items:
                ri(it)
        elif s.k == "mac":
            s.name = ntmap.get(s.name, s.name)
            for a in s.args:
                rs(a)

    def rp(p):
        if isinstance(p, str):
            return bmap.get(p, p)
        return [rp(x) for x in p]

    def ri(it):
        rs(it.sym)
        b = it.bind
        if b and b[0] == "name":
            it.bind = ("name", bmap.get(b[1], b[1]), b[2])
        elif b and b[0] == "pat":
            it.bind = ("pat", rp(b[1]))
    for nt in g2.nts:
        nt.name = ntmap.get(nt.name, nt.name)
        if nt.params:
            nt.params = [ntmap.get(p, p) for p in nt.params]
        for a in nt.alts:
            for it in a.items:
                ri(it)
            if a.cond:
                a.cond = (ntmap.get(a.cond[0], a.cond[0]), a.cond[1], a.cond[2])
    return g2


def f6_shape(g_renamed):
    """F6: precedence-level nonterminals are named `{name}{level}`; collides with a user name"""
    names = {nt.name for nt in g_renamed.nts}
    for nt in g_renamed.nts:
        levels = {a.prec[0] for a in nt.alts if a.prec and a.prec[0] is not None}
        for l in levels:
            if "%s%d" % (nt.name, l) in names:
                return True
    return False


PARAM_TEMPLATE = """use crate::support::*;
%(cfg)s
grammar<'%(lt)s, %(ty)s>(%(p1)s: &'%(lt)s %(ty)s, %(p2)s: u32) where %(ty)s: Env;
extern {
    type Location = usize;
    type Error = UErr;
    enum Tok {
        "a" => Tok { kind: K0, .. },
        "b" => Tok { kind: K1, .. },
    }
}
pub S: Vec<%(ty)s::Out> = { <%(b1)s:Item%(rep)s> => { let _ = %(p2)s; %(b1)s%(conv)s } };
Item: %(ty)s::Out = { "a" => %(p1)s.mk(%(p2)s), "b" <%(b2)s:Item> => %(b2)s };
pub L: Vec<Tok> = "a"%(rep2)s;
"""


def f27_matcher(g, ntmap):
    """F27 (root cause shared with F13): the inliner processes inlined nonterminals in an order
    derived from their NAMES, and actions of distinct inlined nonterminals of one production run
    in that order; renaming a nonterminal therefore permutes them.  Signature: a nonterminal was
    renamed, the grammar has >= 2 inlined nonterminals with observable actions, results are
    equal, and the two event logs become equal once every maximal run of consecutive
    inlined-action events is sorted."""
    pid_inline = {a.pid for nt in g.nts if nt.inline for a in nt.alts if a.pid is not None}
    ninl = len({nt.name for nt in g.nts if nt.inline and any(a.pid is not None for a in nt.alts)})

    def norm(ev):
        out, run_ = [], []
        for x in (ev or "").split():
            if x[0] == "a" and x[1:].isdigit() and int(x[1:]) in pid_inline:
                run_.append(x)
            else:
                out += sorted(run_) + [x]
                run_ = []
        return out + sorted(run_)

    def m(k, w):
        return (k.get("id") == "F27" and bool(ntmap) and ninl >= 2 and w.get("result") == w.get("result_renamed")
                and w.get("events") != w.get("events_renamed") and norm(w.get("events")) == norm(w.get("events_renamed")))
    return m


def run(tier, seed):
    chk = core.Check("C25", "exploration", tier, seed)
    rng = chk.rng("gen")
    n = {"quick": 70, "thorough": 500}[tier]
    subj = subject.Subject(chk.work)
    pairs = []
    specs = []
    makers = [lambda r: gen.gen_core(r, fallible=0.2, sugar=0.25, pat=0.4), gen2.gen_macros, gen2.gen_prec, lambda r: gen.gen_loc(r)]
    tags = ["td_lane", "ra_lane"]
    # deterministic probe of known finding F6: rename S to `E<tightest level>` next to an annotated E
    from .. import probes
    pg = probes.f6_grammar()
    lv = [1, 2]
    pmap_ = {"S": "E%d" % lv[0]}
    pg2 = rename(pg, pmap_, {})
    pairs.append((pg, pg2, gmodel.desugar(pg), pmap_, {}))
    for tag in tags:
        specs.append(dict(name="a0_%s" % tag, text=gmodel.grammar_text(pg), cfg=tag, starts=pg.starts(), kind="extern"))
        specs.append(dict(name="b0_%s" % tag, text=gmodel.grammar_text(pg2), cfg=tag, starts=pg2.starts(), kind="extern"))
    # deterministic probe of known finding F27: S = A B "c" with A, B inline; renaming A to a name that
    # sorts after B changes the order in which the two inlined actions run
    import copy
    pg = probes.f13_grammar()
    pg = copy.deepcopy(pg)
    gen.add_user_inline(rng, pg, subset=set(pg.probe_inline))
    pmap_ = {"A": "Zed"}
    pg2 = rename(pg, pmap_, {})
    pairs.append((pg, pg2, gmodel.desugar(pg), pmap_, {}))
    for tag in tags:
        specs.append(dict(name="a1_%s" % tag, text=gmodel.grammar_text(pg), cfg=tag, starts=pg.starts(), kind="extern"))
        specs.append(dict(name="b1_%s" % tag, text=gmodel.grammar_text(pg2), cfg=tag, starts=pg2.starts(), kind="extern"))
    tries = 0
    while len(pairs) < n and tries < n * 4:
        tries += 1
        mk = makers[tries % len(makers)]
        try:
            g = mk(rng)
            cfg = gmodel.desugar(g)
        except Exception:
            continue
        forced = None
        if rng.random() < 0.4:
            # make sure some nonterminal is used under `+`/`*`/`?` and another one gets renamed to the
            # escaped spelling of that derived name
            cands = [(nt, a, i) for nt in g.nts for a in nt.alts for i, it in enumerate(a.items) if it.sym.k == "n" and it.sym.name != nt.name and a.action == "named"]
            others = [nt.name for nt in g.nts if not nt.params]
            if cands and len(others) >= 2:
                nt_, a_, i_ = rng.choice(cands)
                op = rng.choice("+*?")
                inner = a_.items[i_].sym
                a_.items[i_].sym = gmodel.Rep(inner, op)
                victim = rng.choice([n_ for n_ in others if n_ != inner.name] or others)
                spelled = "".join(c if (c.isalnum() or c == "_") else "_%x" % ord(c) for c in inner.name + op)
                forced = (victim, spelled)
                try:
                    cfg = gmodel.desugar(g)
                except Exception:
                    continue
        nts, binds = names_of(g)
        k_nt = rng.randint(1, len(nts))
        pool = list(NT_POOL)
        rng.shuffle(pool)
        # look-alikes of the names LALRPOP derives for `X+`, `X*`, `X?` and macro instantiations
        # (escaped spellings used for enum variants: non-alphanumerics as _<hex>)
        derived = derived_lookalikes(g)
        rng.shuffle(derived)
        pool = derived[:rng.choice([0, 1, 2, 3])] + pool
        pool = [p for p in pool if p not in nts]
        ntmap = dict(zip(rng.sample(nts, k_nt), pool))
        if forced and forced[1] not in nts:
            ntmap = {k: v for k, v in ntmap.items() if v != forced[1]}
            ntmap[forced[0]] = forced[1]
        bpool = [b for b in BIND_POOL if b not in binds]
        rng.shuffle(bpool)
        kb = rng.randint(0, min(len(binds), len(bpool)))
        bmap = dict(zip(rng.sample(binds, kb), bpool)) if kb else {}
        g2 = rename(g, ntmap, bmap)
        pid = len(pairs)
        pairs.append((g, g2, cfg, ntmap, bmap))
        for tag in tags:
            specs.append(dict(name="a%d_%s" % (pid, tag), text=gmodel.grammar_text(g), cfg=tag, starts=g.starts(), kind="extern"))
            specs.append(dict(name="b%d_%s" % (pid, tag), text=gmodel.grammar_text(g2), cfg=tag, starts=g2.starts(), kind="extern"))
    # compile-only pairs: grammar parameters / type parameters / lifetimes
    ppairs = []
    for i in range({"quick": 16, "thorough": 120}[tier]):
        base = dict(cfg=rng.choice(["", "#[recursive_ascent]"]), lt="a", ty="T", p1="env", p2="num", b1="items", b2="it",
                    rep=rng.choice(["*", "+"]), rep2=rng.choice(["*", "+", "?"]), conv="")
        if base["rep2"] == "?":
            base["rep2"] = "*"
        ren = dict(base)
        ren["p1"], ren["p2"] = rng.sample(["v", "e", "__0", "__tokens", "__lookahead", "__sym0", "input2", "__1", "__nt", "errors"], 2)
        if i == 0:
            ren["p1"], ren["p2"], base["rep"], ren["rep"] = "v", "num2", "+", "+"     # deterministic probe of known finding F9
        ren["b1"], ren["b2"] = rng.sample(["v", "e", "__0", "__sym1", "__temp0", "__start", "x"], 2)
        if i == 0:
            ren["b1"], ren["b2"] = "items", "it"
        if ren["b1"] == ren["p1"] or ren["b1"] == ren["p2"] or ren["b2"] == ren["p1"] or ren["b2"] == ren["p2"]:
            continue
        ren["ty"] = rng.choice(["T", "__T", "__TOKEN", "__TOKENS", "Tok2", "__0T", "L", "E_"])
        ren["lt"] = rng.choice(["a", "__a", "ast", "__input"])
        ppairs.append((base, ren))
        specs.append(dict(name="pa%d" % len(ppairs), text=PARAM_TEMPLATE % base, cfg=None, starts=[], kind="none"))
        specs.append(dict(name="pb%d" % len(ppairs), text=PARAM_TEMPLATE % ren, cfg=None, starts=[], kind="none"))
    mods = {m.name: m for m in subj.add_many(specs)}
    ok = set(subj.build(max_rounds=40))

    def f9_matcher(ren):
        return lambda k, w: k.get("id") == "F9" and w["kind"] == "renaming_changes_compilation" and bool({ren["p1"], ren["p2"]} & {"v", "e"}) and "E0415" in w.get("rustc", "")
    for i, (base, ren) in enumerate(ppairs, 1):
        a, b = mods["pa%d" % i], mods["pb%d" % i]
        chk.evaluations += 1
        if (a.status == "ok") != (b.status == "ok"):
            chk.violation({"kind": "renaming_changes_acceptance", "sig": "params", "summary": "parameter renaming %s: %s vs %s: %s" % (ren, a.status, b.status, (b.stderr or a.stderr)[-300:]), "grammar": b.full_text})
        elif a.status == "ok" and ((a.name in ok) != (b.name in ok)):
            w = {"kind": "renaming_changes_compilation", "sig": "params_compile", "summary": "parameter renaming p1=%s p2=%s b1=%s b2=%s ty=%s: base compiles=%s renamed compiles=%s: %s" % (
                ren["p1"], ren["p2"], ren["b1"], ren["b2"], ren["ty"], a.name in ok, b.name in ok, subj.compile_failures.get(b.name, subj.compile_failures.get(a.name, ""))[:300]),
                "grammar": b.full_text, "rustc": subj.compile_failures.get(b.name, "")}
            chk.violation(w, f9_matcher(ren))
        elif a.status == "ok":
            chk.count("parameter_renamings_equal")
            chk.nontriv(("p", i))
    # model pairs: acceptance, compilation, results
    execs = []
    groups = []
    irng = chk.rng("inputs")
    cases = {}
    for pid, (g, g2, cfg, ntmap, bmap) in enumerate(pairs):
        for tag in tags:
            a, b = mods["a%d_%s" % (pid, tag)], mods["b%d_%s" % (pid, tag)]
            chk.evaluations += 1
            if (a.status == "ok") != (b.status == "ok"):
                w = {"kind": "renaming_changes_acceptance", "sig": "accept", "summary": "nonterminals %s bindings %s (%s): original %s, renamed %s: %s" % (
                    ntmap, bmap, tag, a.status, b.status, (b.stderr if b.status != "ok" else a.stderr)[-300:]), "grammar": a.full_text, "renamed": b.full_text, "ntmap": ntmap, "bmap": bmap}
                chk.violation(w, lambda k, w_, g2=g2: k.get("id") == "F6" and f6_shape(g2) and "declared with the name" in w_["summary"])
                continue
            if a.status != "ok":
                chk.count("both_rejected")
                continue
            if (a.name in ok) != (b.name in ok):
                chk.violation({"kind": "renaming_changes_compilation", "sig": "compile", "summary": "nonterminals %s bindings %s (%s): original compiles=%s renamed compiles=%s: %s" % (
                    ntmap, bmap, tag, a.name in ok, b.name in ok, (subj.compile_failures.get(b.name) or subj.compile_failures.get(a.name, ""))[:400]),
                    "grammar": a.full_text, "renamed": b.full_text, "rustc": subj.compile_failures.get(b.name, "")})
                continue
            if a.name not in ok:
                chk.count("both_fail_to_compile_(C19)")
                continue
            ca = pipeline.Case("a%d" % pid, g, a.text, cfg)
            ca.mods[tag] = a.name
            cb = pipeline.Case("b%d" % pid, g2, b.text, cfg)
            cb.mods[tag] = b.name
            if pid not in cases:
                pipeline.inputs_for_case(irng, ca, exhaustive_budget=40, nrandom=30, nmut=25, max_len=25)
                cases[pid] = ca.inputs
            for s, ins in cases[pid].items():
                s2 = ntmap.get(s, s)
                for w in ins:
                    ea = pipeline.Exec(ca, s, w, 5, tag)
                    eb = pipeline.Exec(cb, s2, w, 5, tag)
                    execs += [ea, eb]
                    groups.append((ea, eb, pid, tag))
    res = pipeline.run_execs(subj, execs)
    for ea, eb, pid, tag in groups:
        ra, rb = res.get(ea.idx), res.get(eb.idx)
        chk.evaluations += 1
        if not ra or not rb or ra.get("timeout") or rb.get("timeout"):
            chk.inconclusive += 1
            continue
        va = ra.get("r") if ra.get("r") is not None else {"panic": ra.get("panic"), "crash": ra.get("crash")}
        vb = rb.get("r") if rb.get("r") is not None else {"panic": rb.get("panic"), "crash": rb.get("crash")}
        # expected-token lists name nonterminals never, terminals only: compare in full
        if va != vb or ra.get("ev") != rb.get("ev"):
            g_ = pairs[pid][0]
            w = {"kind": "renaming_changes_result", "sig": "result", "summary": "renaming %s / %s (%s) input %s: %s vs %s; events %s vs %s" % (pairs[pid][3], pairs[pid][4], tag, ea.toks, json.dumps(va)[:200], json.dumps(vb)[:200], ra.get("ev"), rb.get("ev")),
                 "grammar": subject.apply_config(ea.case.text, tag), "renamed": subject.apply_config(eb.case.text, tag),
                 "result": va, "result_renamed": vb, "events": ra.get("ev"), "events_renamed": rb.get("ev")}
            chk.violation(w, f27_matcher(g_, pairs[pid][3]))
        else:
            chk.count("results_equal")
            if ea.toks:
                chk.nontriv((pid, tag, tuple(ea.toks)))
    g0 = pairs[0]
    chk.sample({"nonterminal_renaming": g0[3], "binding_renaming": g0[4], "renamed_grammar": gmodel.grammar_text(g0[1])[:1500]})
    chk.extra["model_pairs"] = len(pairs)
    chk.extra["parameter_pairs"] = len(ppairs)
    chk.rule = "pair (G, rho(G)): rho renames a random subset of nonterminals / macro names / macro parameters and of bindings (model pairs), or grammar parameters, type parameters, lifetimes and bindings (template pairs) into the adversarial pools; acceptance, compilation and every result + action log compared; non-trivial = non-empty input with equal results, or an accepted template pair"
    chk.assumptions = ["pools exclude Rust keywords, prelude names and the documented reserved `input`/`'input`"]
    return chk.finish(min_nontrivial=100, min_evaluations=300)


def replay(path, seed):
    print("replay: the witness holds both grammar texts")
    return 0
