"""C24: formatting options (--comments, --no-whitespace, --report / emit_* setters) do not
change the generated program: the Rust token stream (proc_macro2, comments and whitespace
vanish by construction) must equal that of the default output."""
import itertools
import os
import shutil

from .. import apidriver, core, corpus, subject, tools


def job(args):
    bin_, text, d, gi = args
    out = {}
    for combo in itertools.product([False, True], repeat=3):
        comments, nows, report = combo
        dd = core.ensure_dir(os.path.join(d, "c%d%d%d" % combo), wipe=True)
        p = os.path.join(dd, "g.lalrpop")
        with open(p, "w") as f:
            f.write(text)
        extra = (["--comments"] if comments else []) + (["--no-whitespace"] if nows else []) + (["--report"] if report else [])
        res = subject.run_lalrpop(bin_, p, out_dir=dd, extra=extra)
        rs = os.path.join(dd, "g.rs")
        out[combo] = (subject.classify_cli(res), rs if os.path.exists(rs) else None)
    return out


def run(tier, seed):
    chk = core.Check("C24", "translation_validation", tier, seed)
    bin_ = core.build_lalrpop()
    tools.build()
    apidriver.build()
    rng = chk.rng("corpus")
    ngen = {"quick": 60, "thorough": 500}[tier]
    items = corpus.generated(rng, ngen) + corpus.repo_files(12000)
    if tier == "quick":
        items = items[:ngen] + rng.sample(items[ngen:], min(25, len(items) - ngen))
    jobs = [(bin_, text, os.path.join(chk.work, "g%d" % gi), gi) for gi, (name, text) in enumerate(items)]
    results = core.tmap(job, jobs)
    programs = 0
    disagreements = 0
    for (name, text), r in zip(items, results):
        base = r[(False, False, False)]
        if base[0] != "ok":
            chk.count("not_accepted")
            continue
        programs += 1
        for combo, (st, path) in r.items():
            if combo == (False, False, False):
                continue
            chk.evaluations += 1
            if st != "ok" or path is None:
                chk.violation({"kind": "option_changes_acceptance", "sig": "accept", "summary": "%s: options %s -> %s" % (name, combo, st), "grammar": text})
                continue
            cmp_ = tools.call({"op": "tokcmp", "a_path": base[1], "b_path": path})
            if "error" in cmp_:
                chk.violation({"kind": "output_not_tokenizable", "sig": "tokenize", "summary": "%s options %s: %s" % (name, combo, cmp_["error"]), "grammar": text})
                continue
            if not cmp_["equal"]:
                disagreements += 1
                chk.violation({"kind": "token_stream_differs", "sig": "tokens/%s" % (combo,), "summary": "%s: options (comments,no_whitespace,report)=%s change the token stream: %s | %s" % (name, combo, cmp_.get("ctx_a"), cmp_.get("ctx_b")),
                               "grammar": text, "diff": cmp_})
            else:
                raw_same = open(base[1], "rb").read() == open(path, "rb").read()
                chk.count("token_streams_equal")
                if not raw_same:
                    chk.count("bytes_differ_but_tokens_equal")
                    chk.nontriv((core.sha(text)[:12], combo))
    # the same through the Configuration setters for a slice
    napi = {"quick": 12, "thorough": 100}[tier]
    k = 0
    for (name, text), r in zip(items, results):
        if r[(False, False, False)][0] != "ok" or k >= napi:
            continue
        k += 1
        combo = rng.choice([c for c in itertools.product([False, True], repeat=3) if any(c)])
        d = core.ensure_dir(os.path.join(chk.work, "api%d" % k), wipe=True)
        p = os.path.join(d, "g.lalrpop")
        open(p, "w").write(text)
        rr = apidriver.call({"op": "process_file", "path": p, "out_dir": d, "force": True, "emit_comments": combo[0], "emit_whitespace": not combo[1], "emit_report": combo[2]})
        chk.evaluations += 1
        if rr["status"] != "ok":
            chk.violation({"kind": "api_option_changes_acceptance", "sig": "api", "summary": "%s %s: %s" % (name, combo, rr["msg"][:200]), "grammar": text})
            continue
        cmp_ = tools.call({"op": "tokcmp", "a_path": r[(False, False, False)][1], "b_path": os.path.join(d, "g.rs")})
        if not cmp_.get("equal"):
            chk.violation({"kind": "api_token_stream_differs", "sig": "api_tokens", "summary": "%s setters %s: %s" % (name, combo, str(cmp_)[:300]), "grammar": text})
        else:
            chk.count("api_token_streams_equal")
    chk.extra["programs"] = programs
    chk.extra["disagreements_checked"] = disagreements
    chk.extra["trusted_base"] = ["proc_macro2 tokenizer"]
    chk.sample({"grammar": items[0][0], "options_compared": "all 7 non-default combinations of (--comments, --no-whitespace, --report)"})
    chk.rule = "accepted grammar x each of the 7 non-default option combinations (CLI flags; Configuration setters for a slice): proc_macro2 token stream vs default output; non-trivial = bytes differ but token streams are equal"
    for gi in range(len(items)):
        shutil.rmtree(os.path.join(chk.work, "g%d" % gi), ignore_errors=True)
    return chk.finish(min_nontrivial=30, min_evaluations=100)


def replay(path, seed):
    print("replay: witness holds the grammar text and the option combination")
    return 0
