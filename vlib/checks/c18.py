"""C18: LALRPOP never panics: every grammar text yields a parser or a diagnostic.
Workload: seeded mutation of a corpus (all .lalrpop files of the repository + generator output)
plus targeted producers aimed at unwrap/expect/unreachable sites.  Oracle: process status and
stderr of the real CLI.  Hangs are inconclusive unless they match the F12 known-finding shape."""
import glob
import os
import random
import re
import shutil
import tempfile

from .. import core, gen, gen2, gmodel, subject

TOKEN_RE = re.compile(r'''r#*"(?:[^"]|"(?!#))*"#*|"(?:\\.|[^"\\])*"|'(?:\\.|[^'\\])'|//[^\n]*|[A-Za-z_][A-Za-z0-9_]*|\s+|=>@L|=>@R|=>\?|=>|#!\[|::|==|!=|~~|!~|\.\.|.''', re.S)

ATTRS = [
    '#[precedence(level="0")]', '#[precedence(level="1")]', '#[precedence(level="2")]', '#[precedence(level="3")]',
    '#[precedence(level="4294967295")]', '#[precedence(level="4294967296")]', '#[precedence(level="-1")]', '#[precedence(level="x")]',
    '#[precedence(lvl="1")]', '#[precedence]', '#[precedence(level="1")] #[precedence(level="2")]',
    '#[assoc(side="left")]', '#[assoc(side="right")]', '#[assoc(side="none")]', '#[assoc(side="all")]', '#[assoc(side="up")]',
    '#[assoc]', '#[assoc(dir="left")]', '#[inline]', '#[cfg(feature = "a")]', '#[cfg(not(feature = "a"))]', '#[cfg(all())]', '#[cfg(any())]',
    '#[cfg(feature)]', '#[cfg]', '#[cfg(not())]', '#[cfg(not(feature = "a", feature = "b"))]', '#[cfg(foo = "a")]', '#[LALR]', '#[recursive_ascent]', '#[table_driven]', '#[test_all]', '#[unknown]',
]
SYMS = ['"a"', '"b"', 'r"[a-z]+"', 'r"a*"', 'r""', 'r"(?i)x"', 'r"\\b"', 'r"a*?"', 'r"(?P<n>a)"', 'r"^a$"', 'r"["', 'r"\\p{Greek}"', 'r"(a"', '"\\q"', '""',
        'S', 'A', 'B', 'Zz', '@L', '@R', '!', '<S>', '<x:S>', '<mut x:S>', '<(x, y):S>', '<(x, (y, z)):S>', '<(x):S>', 'S?', 'S*', 'S+', 'S??', '(S S)', '(<S> S)', '()', '(S)*',
        'M<S>', 'M<"a">', 'M<S, S>', 'M<>', 'M<M<S>>', 'M<(S S)>', 'M<S?>', 'Id', '<Id>', '"("', '")"', '<@L>', '<l:@L>', '<!>', '<e:!>', '(!)', '!*']
ACTIONS = [' => ()', ' => <>', ' => (<>)', ' => {<>}', ' => Foo {<>}', ' => vec![<>, <>]', ' =>? Ok(())', ' =>? Err(ParseError::User { error: () })', ' =>@L', ' =>@R',
           ' => { "<>" }', ' => { r"\\" }', ' => { \'}\' }', ' => { (', ' => )', ' => "unterminated', " => 'a", ' => x', ' => { <> <> }', ' => format!("{}", <>)', '']
CONDS = ['', ' if X == "a"', ' if X != "a"', ' if X ~~ "a"', ' if X !~ "a"', ' if X ~~ "("', ' if Y == "a"', ' if X == ""', ' if S == "a"']
TYPES = ['', ': ()', ': u32', ': #S#', ': #"a"*#', ': Vec<#A#>', ': #(S S)#', ': #@L#', ': #M<S>#', ': Vec<u32>', ": &'input str", ': (u32, u32)', ': Box<Self>', ': Vec<X>', ': X', ': <X as Y>::Z', ': #X#', ": &'a mut T", ': dyn Foo', ': [u8; 4]', ': fn(u32) -> u32', ': (', ': ::std::string::String']
HEADERS = ['grammar;', 'grammar<T>;', "grammar<'a>(x: &'a str);", 'grammar(v: u32, e: u32);', 'grammar<T>(t: T) where T: Clone;', 'grammar where;', 'grammar(;', 'grammar<>;',
           'grammar;;', '', 'grammar', 'use foo::bar;\ngrammar;', '#![allow(unused)]\ngrammar;', '#[LALR] grammar;', '#[recursive_ascent] #[LALR] grammar;', '#[LALR] #[LALR] grammar;', "grammar<'input>(input: &'input str);", "grammar(input: u32);"]
EXTERNS = ['', 'extern { type Location = usize; type Error = (); enum Tok { "a" => Tok::A, "b" => Tok::B(<u32>), Id => Tok::Id(<String>) } }',
           'extern { type Location = usize; }', 'extern { type Error = u32; }', 'extern { enum Tok { } }', 'extern { }', 'extern { type Location = usize; type Location = u32; enum Tok { "a" => Tok::A } }',
           'extern { enum Tok { "a" => Tok::A, "a" => Tok::B } }', 'extern { enum Tok { "a" => Tok::A(<u32>, <u32>) } }', 'extern { enum Tok { "a" => Tok::A { x: <u32>, .. } } }',
           'extern { enum Tok { "a" => (<u32>, _), "b" => "x", Id => \'c\' } }', 'extern { type Foo = u32; enum Tok { "a" => .. } }',
           'match { "a", "b" } else { r"[a-z]+" => Id, _ }', 'match { "a" => A, "b" => "B", r"x" => { }, _ }', 'match { _ } else { _ }', 'match { }', 'match { "a" } match { "b" }',
           'match { r"\\s*" => { }, r"//[^\\n]*" => { }, _ }', 'match { "a" => "b", "b" => "a" }', 'match { r"a" => A } else { "a" => A2 }', 'match { "a" => { }, "a" }',
           'extern { enum Tok { "a" => Tok::A } } match { "a" }', 'match { "a" } extern { enum Tok { "a" => Tok::A } }']


def targeted(rng):
    """near-valid grammars assembled from pools aimed at particular code paths"""
    lines = [rng.choice(HEADERS), rng.choice(EXTERNS)]
    nts = ['S', 'A', 'B']
    if rng.random() < 0.5:
        # a macro definition (possibly recursive / wrong arity / conditions)
        params = rng.choice(['X', 'X, Y', 'X, X', '', 'T'])
        alts = []
        for _ in range(rng.randint(1, 3)):
            body = " ".join(rng.choice(SYMS + ['X', 'X', 'Y', 'M<X>', 'M<(X X)>', 'M<X?>', 'M<Y, X>', '<X>', '<v:X>', '<e:X>']) for _ in range(rng.randint(0, 3)))
            alts.append("%s%s%s" % (body, rng.choice(CONDS), rng.choice(ACTIONS)))
        lines.append("%sM<%s>%s = { %s };" % (rng.choice(['', '', 'pub ', '#[inline] ']), params, rng.choice(TYPES), ", ".join(alts)))
    prec_mode = rng.random() < 0.4
    for n in nts[:rng.randint(1, 3)]:
        alts = []
        for k in range(rng.randint(1, 4)):
            attrs = ""
            if prec_mode and (k == 0 or rng.random() < 0.7):
                attrs = " ".join(rng.choice(ATTRS[:20]) for _ in range(rng.choice([1, 1, 2]))) + " "
            elif rng.random() < 0.15:
                attrs = rng.choice(ATTRS) + " "
            body = " ".join(rng.choice(SYMS + [n, n]) for _ in range(rng.randint(0, 4)))
            alts.append("%s%s%s%s" % (attrs, body, rng.choice(CONDS) if rng.random() < 0.1 else "", rng.choice(ACTIONS)))
        vis = rng.choice(['pub ', 'pub ', '', 'pub(crate) ', 'pub(in x) ', 'pub pub '])
        nattr = rng.choice(['', '', '', '#[inline] ', '#[cfg(feature = "a")] ', '#[inline] #[inline] ', '#[precedence(level="1")] '])
        form = rng.random()
        if form < 0.8:
            lines.append("%s%s%s%s = { %s };" % (nattr, vis, n, rng.choice(TYPES), ", ".join(alts)))
        else:
            lines.append("%s%s%s%s = %s;" % (nattr, vis, n, rng.choice(TYPES), alts[0]))
    rng.shuffle(lines) if rng.random() < 0.1 else None
    return "\n".join(lines) + "\n"


def conflictful(rng):
    """grammars with conflicts of many shapes: drives the conflict-report generator
    (examples, traces, inline / `?` suggestions, precedence hints)"""
    from . import c03
    k = rng.random()
    if k < 0.4:
        g = c03.raw_random(rng)
    elif k < 0.7:
        g = c03.family(rng)
    else:
        g = c03.sugar_random(rng)
    return c03.text_of(g).replace(gmodel.CONFIG_MARK, rng.choice(["", "", "#[LALR]", "#[recursive_ascent]"]))


def mutate_tokens(rng, text, pool):
    toks = TOKEN_RE.findall(text)
    if not toks:
        return text
    n = rng.choice([1, 1, 1, 2, 2, 3, 5])
    for _ in range(n):
        if not toks:
            break
        i = rng.randrange(len(toks))
        k = rng.random()
        if k < 0.25:
            del toks[i]
        elif k < 0.45:
            toks.insert(i, toks[i])
        elif k < 0.6 and len(toks) > 1:
            j = rng.randrange(len(toks))
            toks[i], toks[j] = toks[j], toks[i]
        elif k < 0.85:
            toks[i] = rng.choice(pool)
        else:
            toks.insert(i, rng.choice(pool))
    return "".join(toks)


def mutate_bytes(rng, text):
    b = bytearray(text.encode())
    for _ in range(rng.choice([1, 2, 4, 8])):
        k = rng.random()
        if k < 0.3 and b:
            del b[rng.randrange(len(b))]
        elif k < 0.6:
            b.insert(rng.randint(0, len(b)), rng.randrange(256))
        elif k < 0.8 and b:
            b[rng.randrange(len(b))] = rng.choice([0, 0x80, 0xff, 0xc3, 0xe2, 0xf0, 34, 39, 92, 123, 125, 60, 62])
        else:
            b = b[:rng.randint(0, len(b))]
    return bytes(b)


_corpus = None


MAX_CORPUS_LEN = 6000     # quick tier: the two big grammars (lrgrammar, pascal) take seconds each in a debug build


def corpus():
    global _corpus
    if _corpus is None:
        files = sorted(glob.glob(os.path.join(core.REPO, "**", "*.lalrpop"), recursive=True))
        files = [f for f in files if "/target/" not in f]
        out = []
        for f in files:
            try:
                t = open(f, encoding="utf-8").read()
            except Exception:
                continue
            if len(t) < MAX_CORPUS_LEN:
                out.append(t)
        _corpus = out
    return _corpus


PANIC_RE = re.compile(r"panicked at ([^\n]*?):(\d+):\d+:\n([^\n]*)")


def panic_key(stderr):
    m = PANIC_RE.search(stderr)
    if m:
        f = m.group(1)
        f = f[f.find("lalrpop"):] if "lalrpop" in f else f
        return "%s:%s: %s" % (f, m.group(2), m.group(3)[:120])
    return stderr.strip()[-200:]


def f12_shape(data):
    """F12: a self-recursive macro whose recursive use passes an argument containing its own
    parameter more than once (argument doubles per expansion round)"""
    try:
        t = data.decode()
    except Exception:
        return False
    for m in re.finditer(r"([A-Za-z_]\w*)<\s*([A-Za-z_]\w*)[^>]*>\s*(?::[^=]*)?=", t):
        name, par = m.group(1), m.group(2)
        for u in re.finditer(re.escape(name) + r"<([^;]*?)>", t[m.end():]):
            arg = u.group(1)
            if len(re.findall(r"\b%s\b" % re.escape(par), arg)) >= 2 or (re.search(r"\b%s\b" % re.escape(par), arg) and re.search(r"[(*+?]", arg) and name in arg):
                return True
    return False


def job(spec):
    kind, seed, bin_, workroot, timeout = spec
    rng = random.Random(seed)
    cps = corpus()
    pool = [x for x in TOKEN_RE.findall(rng.choice(cps)) if x.strip()][:400] + SYMS + ATTRS + ACTIONS + ['<', '>', '{', '}', '(', ')', ',', ';', ':', '=', '=>', '=>?', '*', '+', '?', '!', '#', '"', "'", 'pub', 'grammar', 'extern', 'enum', 'match', 'else', 'if', 'use', 'where', 'for', 'type', 'mut', '_', '..', '@L', '@R']
    if kind == "probe_f12":
        from .. import probes
        data = probes.F12_TEXT.encode()
    elif kind == "probe_f23":
        from .. import probes
        data = probes.F23_TEXT.encode()
    elif kind == "token":
        data = mutate_tokens(rng, rng.choice(cps), pool).encode()
    elif kind == "gen_token":
        g = rng.choice([gen.gen_core, gen.gen_loc, gen2.gen_recovery])(rng)
        data = mutate_tokens(rng, gmodel.grammar_text(g).replace(gmodel.CONFIG_MARK, rng.choice(["", "#[LALR]", "#[recursive_ascent]"])), pool).encode()
    elif kind == "targeted":
        t = targeted(rng)
        if rng.random() < 0.3:
            t = mutate_tokens(rng, t, pool)
        data = t.encode()
    elif kind == "conflict":
        data = conflictful(rng).encode()
    elif kind == "bytes":
        data = mutate_bytes(rng, rng.choice(cps))
    else:
        data = bytes(rng.randrange(256) for _ in range(rng.randint(0, 200)))
    d = tempfile.mkdtemp(dir=workroot)
    try:
        p = os.path.join(d, "g.lalrpop")
        with open(p, "wb") as f:
            f.write(data)
        env = {"LALRPOP_LANE_TABLE": "disabled"} if rng.random() < 0.2 else {}
        extra = []
        if rng.random() < 0.1:
            extra.append("--report")
        if rng.random() < 0.1:
            extra += ["--features", "a"]
        rc, out, err, to = core.run([bin_, "--force", "--out-dir", d] + extra + [p], timeout=timeout, env=env, rlimit_as=4 << 30)
        err = err.decode(errors="replace")
        outs = out.decode(errors="replace")
    finally:
        shutil.rmtree(d, ignore_errors=True)
    if to:
        st = "timeout"
    elif rc == 0:
        st = "ok"
    elif "panicked at" in err or rc == 101:
        st = "panic"
    elif rc == 1:
        st = "diagnostic"
    else:
        st = "abnormal_exit"
    if kind.startswith("probe_"):
        env, extra = {}, []
    r = {"kind": kind, "seed": seed, "status": st, "rc": rc}
    if st in ("panic", "abnormal_exit", "timeout"):
        r["data_hex"] = data.hex()
        r["stderr"] = err[-1500:]
        r["key"] = panic_key(err) if st == "panic" else st
        r["env"] = env
        r["extra"] = extra
        if st == "timeout" or (st == "abnormal_exit" and "memory allocation" in err):
            r["f12"] = f12_shape(data)
    else:
        r["conflict"] = ("onflict" in outs or "onflict" in err)
        r["len"] = len(data)
    return r


def run(tier, seed):
    chk = core.Check("C18", "exploration", tier, seed)
    bin_ = core.build_lalrpop()
    base = core.seed_for("C18", seed) % (2 ** 31)
    n = {"quick": 10000, "thorough": 80000}[tier]
    global MAX_CORPUS_LEN
    if tier == "thorough":
        MAX_CORPUS_LEN = 40000
    mix = [("token", 0.3), ("gen_token", 0.15), ("targeted", 0.3), ("conflict", 0.12), ("bytes", 0.1), ("garbage", 0.03)]
    specs = []
    i = 0
    for kind, frac in mix:
        for _ in range(int(n * frac)):
            specs.append((kind, base + i, bin_, chk.work, 20))
            i += 1
    specs.append(("probe_f12", 0, bin_, chk.work, 20))     # deterministic probe of known finding F12
    specs.append(("probe_f23", 0, bin_, chk.work, 20))     # deterministic probe of known finding F23
    results = core.pmap(job, specs, chunksize=32)
    keys = {}
    for r in results:
        chk.evaluations += 1
        chk.count("status_" + r["status"])
        chk.count("kind_" + r["kind"])
        if r["status"] in ("ok", "diagnostic"):
            if r.get("conflict"):
                chk.count("conflict_reports_rendered")
            chk.nontriv((r["kind"], r["seed"]))
            continue
        if r["status"] == "timeout" or (r["status"] == "abnormal_exit" and r.get("f12")):
            if r.get("f12"):
                w = {"kind": "hang", "sig": "hang/f12", "summary": "no answer within budget; input has the F12 shape", "input_hex": r["data_hex"], "f12_shape": True}
                chk.violation(w, lambda k, w_: k.get("id") == "F12" and w_.get("f12_shape") is True)
            else:
                chk.inconclusive += 1
                chk.count("timeouts_inconclusive")
                chk.extra.setdefault("timeout_samples", [])
                if len(chk.extra["timeout_samples"]) < 3:
                    chk.extra["timeout_samples"].append(bytes.fromhex(r["data_hex"]).decode(errors="replace")[:600])
            continue
        key = r["key"]
        if key in keys:
            keys[key] += 1
            continue
        keys[key] = 1
        w = {"kind": r["status"], "sig": key, "summary": "%s: %s" % (r["status"], key), "input_hex": r["data_hex"],
             "input_text": bytes.fromhex(r["data_hex"]).decode(errors="replace")[:3000], "stderr": r["stderr"], "rc": r["rc"],
             "env": r["env"], "extra": r["extra"], "generator": r["kind"], "seed": r["seed"]}
        chk.violation(w, lambda k, w_: k.get("panic_site") is not None and k["panic_site"] in w_["sig"])
    chk.extra["distinct_failure_sites"] = keys
    for r in results[:3]:
        chk.sample({"generator": r["kind"], "seed": r["seed"], "status": r["status"]})
    chk.rule = "mutant or targeted grammar text fed to the real CLI (debug build, so debug_assert and overflow checks are extra monitors); distinct by (generator, seed); non-trivial = the run ended with exit 0 or 1 without panic (every case is a distinct text); panics are keyed by source location + message"
    chk.assumptions = ["a wall-clock timeout (20 s per grammar) is inconclusive, not a violation, unless the input has the F12 shape"]
    return chk.finish(min_nontrivial=1000, min_evaluations=1000)


def replay(path, seed):
    import json
    w = json.load(open(path))["witness"]
    bin_ = core.build_lalrpop()
    d = tempfile.mkdtemp()
    try:
        p = os.path.join(d, "g.lalrpop")
        open(p, "wb").write(bytes.fromhex(w["input_hex"]))
        rc, out, err, to = core.run([bin_, "--force", "--out-dir", d] + w.get("extra", []) + [p], timeout=60, env=w.get("env"))
    finally:
        shutil.rmtree(d, ignore_errors=True)
    err = err.decode(errors="replace")
    print("rc=%s timeout=%s\n%s" % (rc, to, err[-1500:]))
    if "panicked at" in err or rc not in (0, 1) or to:
        print("VIOLATION property=C18 replay=%s" % path)
        return 1
    return 0
