"""C22: a crash during generation never leaves output that a later build accepts.
Fault enumeration over the REAL binary: (i) SIGKILL at entry of the k-th file-affecting syscall
(strace -e inject=...:signal=SIGKILL:when=k) for every k until the run completes untouched,
(ii) RLIMIT_FSIZE = b for byte offsets b of the output: SIGXFSZ (crash mid-write) and, with the
signal ignored, a short write + EFBIG (error-return path), (iii) the same with --report;
each from {no previous output, current previous output, stale previous output}.  After every
fault a plain non-forced build must yield bytes identical to a clean generation."""
import os
import shutil

from .. import core, subject

G1 = """grammar;
extern { type Location = usize; enum Tok { "a" => Tok::A, "b" => Tok::B, "(" => Tok::L, ")" => Tok::R } }
pub S: u32 = { <l:S> "a" <r:T> => l + r, T };
T: u32 = { "b" => 1, "(" <S> ")" };
"""
G0 = """grammar;
extern { type Location = usize; enum Tok { "a" => Tok::A, "b" => Tok::B } }
pub S: u32 = { "a" => 0, "b" <S> => 1 };
"""
SYSCALLS = ["openat", "write", "unlink,unlinkat", "rename,renameat,renameat2", "mkdir,mkdirat", "close", "fsync,fdatasync,ftruncate"]


def clean_output(bin_, text, d, extra=()):
    dd = core.ensure_dir(d, wipe=True)
    p = os.path.join(dd, "g.lalrpop")
    open(p, "w").write(text)
    rc, out, err, to = core.run([bin_, "--force"] + list(extra) + [p], timeout=120)
    if rc != 0:
        raise core.HarnessError("reference generation failed: " + err.decode(errors="replace")[-500:])
    return open(os.path.join(dd, "g.rs"), "rb").read()


def prepare(d, text, prev, ref_cur, ref_old):
    dd = core.ensure_dir(d, wipe=True)
    open(os.path.join(dd, "g.lalrpop"), "w").write(text)
    if prev == "current":
        open(os.path.join(dd, "g.rs"), "wb").write(ref_cur)
    elif prev == "stale":
        open(os.path.join(dd, "g.rs"), "wb").write(ref_old)
    return dd


def rebuild(bin_, dd, ref_cur):
    """the later, non-forced build after the fault (runs inside the worker threads)"""
    p = os.path.join(dd, "g.lalrpop")
    rs = os.path.join(dd, "g.rs")
    if os.path.exists(rs):
        data = open(rs, "rb").read()
        state_after_fault = "complete" if data == ref_cur else ("absent" if not data else "partial_or_other(%d bytes)" % len(data))
    else:
        state_after_fault = "absent"
    rc, out, err, to = core.run([bin_, p], timeout=120)
    got = open(rs, "rb").read() if os.path.exists(rs) else None
    return {"state": state_after_fault, "rc": rc, "timeout": to, "ok": rc == 0 and got == ref_cur,
            "got_len": None if got is None else len(got), "stderr": err.decode(errors="replace")[-400:]}


def judge(chk, r, ref_cur, desc, fault_hit):
    chk.evaluations += 1
    if r["timeout"]:
        chk.inconclusive += 1
        return
    chk.count("after_fault_output_" + r["state"].split("(")[0])
    if not r["ok"]:
        chk.violation({"kind": "stale_or_truncated_output_kept", "sig": desc.split(" k=")[0].split(" b=")[0],
                       "summary": "%s: after the fault the output was %s; the non-forced rebuild (rc=%s) left %s" % (
                           desc, r["state"], r["rc"], "no output" if r["got_len"] is None else "%d bytes (expected %d)" % (r["got_len"], len(ref_cur))),
                       "fault": desc, "stderr": r["stderr"]})
    elif fault_hit:
        chk.nontriv(desc)


def run(tier, seed):
    chk = core.Check("C22", "fault_enumeration", tier, seed)
    bin_ = core.build_lalrpop()
    if not shutil.which("strace"):
        raise core.HarnessError("strace not available")
    ref_cur = clean_output(bin_, G1, os.path.join(chk.work, "ref1"))
    ref_old_text = G0
    # stale output: complete, valid output of another (older) grammar text
    ref_old = clean_output(bin_, G0, os.path.join(chk.work, "ref0"))
    ref_cur_report = clean_output(bin_, G1, os.path.join(chk.work, "ref1r"), extra=["--report"])
    if ref_cur_report != ref_cur:
        chk.count("report_option_changes_bytes")
    size = len(ref_cur)
    header_len = len(ref_cur.split(b"\n", 2)[0]) + len(ref_cur.split(b"\n", 2)[1]) + 2
    jobs = []
    # (i) syscall boundaries
    maxk = {"quick": 45, "thorough": 200}[tier]
    for prev in ("none", "current", "stale"):
        for report in (False, True):
            if tier == "quick" and report and prev == "current":
                continue
            for sc in SYSCALLS:
                jobs.append(("syscall", prev, report, sc, maxk))
    # (ii) byte offsets
    if tier == "quick":
        offs = list(range(0, header_len + 3)) + list(range(header_len + 3, size + 2, max(1, size // 60))) + [size - 1, size, size + 1]
    elif os.environ.get("VERIF_C22_ALL_OFFSETS"):
        offs = list(range(0, size + 2))          # every byte offset: hours, not minutes
    else:
        offs = list(range(0, header_len + 512)) + list(range(header_len + 512, size + 2, max(1, size // 900))) + list(range(max(0, size - 64), size + 2))
    offs = sorted(set(o for o in offs if o >= 0))
    for prev in ("none", "current", "stale"):
        for mode in ("sigxfsz", "efbig"):
            for report in (False, True):
                if tier == "quick" and (report and prev != "stale"):
                    continue
                jobs.append(("fsize", prev, report, mode, offs))

    # how many calls of each family does an unfaulted run make? (one traced run per state)
    counts = {}

    def count_calls(prev, report):
        dd = prepare(os.path.join(chk.work, "cnt_%s_%s" % (prev, report)), G1, prev, ref_cur, ref_old)
        p = os.path.join(dd, "g.lalrpop")
        log = os.path.join(dd, "strace.log")
        allsc = ",".join(SYSCALLS)
        cmd = ["strace", "-f", "-o", log, "-e", "trace=" + allsc, bin_] + (["--force"] if prev == "current" else []) + (["--report"] if report else []) + [p]
        core.run(cmd, timeout=120)
        c = {}
        try:
            for line in open(log, errors="replace"):
                for fam in SYSCALLS:
                    for name in fam.split(","):
                        if (" " + name + "(") in line or line.startswith(name + "("):
                            c[fam] = c.get(fam, 0) + 1
        except OSError:
            pass
        shutil.rmtree(dd, ignore_errors=True)
        return c
    points = []
    for (kind, prev, report, x, y) in jobs:
        if kind == "syscall":
            key = (prev, report)
            if key not in counts:
                counts[key] = count_calls(prev, report)
            n = min(y, counts[key].get(x, 0) + 1)
            for k in range(1, n + 1):
                points.append((kind, prev, report, x, k))
        else:
            for b in y:
                points.append((kind, prev, report, x, b))

    def do(pt):
        kind, prev, report, x, v = pt
        extra = ["--report"] if report else []
        force = ["--force"] if prev == "current" else []   # a current output is only rewritten when forced
        if kind == "syscall":
            dd = prepare(os.path.join(chk.work, "w_%s_%s_%s_%d" % (prev, report, x.split(",")[0], v)), G1, prev, ref_cur, ref_old)
            p = os.path.join(dd, "g.lalrpop")
            cmd = ["strace", "-f", "-o", "/dev/null", "-e", "trace=" + x, "-e", "inject=%s:signal=SIGKILL:when=%d" % (x, v), bin_] + force + extra + [p]
            rc, out, err, to = core.run(cmd, timeout=120)
            return (dd, "SIGKILL at entry of %s call k=%d prev=%s report=%s" % (x, v, prev, report), rc != 0)
        dd = prepare(os.path.join(chk.work, "f_%s_%s_%s_%d" % (prev, report, x, v)), G1, prev, ref_cur, ref_old)
        p = os.path.join(dd, "g.lalrpop")
        rc, out, err, to = core.run([bin_] + force + extra + [p], timeout=120, rlimit_fsize=v, ignore_xfsz=(x == "efbig"))
        # the limit bites whenever it is below the output size, whatever the exit status says
        # (a run that hides a short write behind exit 0 is exactly what must be caught)
        return (dd, "RLIMIT_FSIZE %s b=%d prev=%s report=%s" % (x, v, prev, report), rc != 0 or v < size)

    def do2(pt):
        dd, desc, hit = do(pt)
        r = rebuild(bin_, dd, ref_cur) if hit else None
        shutil.rmtree(dd, ignore_errors=True)
        return desc, hit, r
    recs = core.tmap(do2, points)
    for desc, hit, r in recs:
        if hit:
            chk.count("faults_injected")
            judge(chk, r, ref_cur, desc, hit)
        else:
            chk.count("runs_completed_without_fault")
    chk.extra["output_size_bytes"] = size
    chk.extra["byte_offsets_tried"] = len(offs)
    # exhaustive = every syscall boundary of the traced families AND every byte offset
    chk.exhaustive = (tier == "thorough" and len(offs) == size + 2)
    chk.extra["syscall_families"] = SYSCALLS
    chk.sample({"fault": "SIGKILL at entry of write call k=3 prev=stale", "then": "lalrpop g.lalrpop (non-forced)", "expect": "g.rs byte-identical to a clean generation"})
    chk.rule = "fault point = (syscall family, k-th call) killed with SIGKILL via strace injection, or (byte offset b, SIGXFSZ | EFBIG) via RLIMIT_FSIZE, x previous-output state {none, current(forced run), stale} x {--report or not}; after each, a non-forced rebuild must reproduce the clean bytes; non-trivial = the fault actually hit (the faulted run did not exit 0); distinct by fault description"
    chk.assumptions = ["strace syscall injection and RLIMIT_FSIZE behave as documented", "one grammar; the write path does not depend on the grammar"]
    return chk.finish(min_nontrivial=50, min_evaluations=100)


def replay(path, seed):
    print("replay: the witness names the fault point; re-run ./check C22")
    return 0
