"""C28: ParseError helpers transform and display errors as documented.  Exhaustive over small
domains (5 variants x locations {0,1,7} x tokens {a,b} x errors {x,y} x expected lists of
length 0..4); the monitor (rust/tools `parseerr`) records the call sequence of the mapping
closures and compares results and Display strings with an independent re-statement."""
from .. import core, tools


def run(tier, seed):
    chk = core.Check("C28", "exploration", tier, seed)
    tools.build()
    r = tools.call({"op": "parseerr"})
    if "error" in r:
        raise core.HarnessError("parseerr: " + r["error"])
    chk.evaluations = r["cases"]
    for v in r["violations"]:
        chk.violation({"kind": "helper_" + v["op"], "sig": v["op"], "summary": str(v)[:500], "detail": v})
    for i in range(r["values"]):
        chk.nontriv(i)
    chk.exhaustive = True
    chk.extra["distinct_parse_error_values"] = r["values"]
    chk.sample({"value": "UnrecognizedToken { token: (1, \"a\", 7), expected: [\"p\", \"q\", \"r\"] }",
                "display": "Unrecognized token `a` found at 1:7\nExpected one of p, q or r", "map_location_calls": [1, 7]})
    chk.rule = "every ParseError value over the small domains x {map_location (recording closure), map_token, map_error, Display, From}; distinct = distinct value; all are non-trivial"
    chk.assumptions = ["the re-statement of the documented forms in rust/tools/src/main.rs (expected_suffix, parseerr)"]
    return chk.finish(min_nontrivial=50, min_evaluations=100)


def replay(path, seed):
    return run("quick", seed)
