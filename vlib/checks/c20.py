"""C20: code generation is deterministic: same bytes across processes (fresh hash seeds each),
alone via the CLI, alone via Configuration::process_file, and via process_dir in batches of
varying composition and walk order."""
import hashlib
import os
import shutil

from .. import apidriver, core, corpus, subject


def gen_cli(args):
    bin_, text, d, k = args
    dd = core.ensure_dir(os.path.join(d, "p%d" % k), wipe=True)
    p = os.path.join(dd, "g.lalrpop")
    with open(p, "w") as f:
        f.write(text)
    res = subject.run_lalrpop(bin_, p, out_dir=dd, extra=["--report"] if k % 4 == 3 else [])
    out = os.path.join(dd, "g.rs")
    data = open(out, "rb").read() if os.path.exists(out) else None
    return subject.classify_cli(res), (hashlib.sha256(data).hexdigest() if data is not None else None), (data if k == 0 else None)


def run(tier, seed):
    chk = core.Check("C20", "exploration", tier, seed)
    bin_ = core.build_lalrpop()
    apidriver.build()
    rng = chk.rng("corpus")
    ngen = {"quick": 70, "thorough": 600}[tier]
    nproc = {"quick": 8, "thorough": 16}[tier]
    items = corpus.generated(rng, ngen) + [x for x in corpus.repo_files(12000)]
    if tier == "quick":
        items = items[:ngen] + rng.sample(items[ngen:], min(20, len(items) - ngen))
    jobs = []
    for gi, (name, text) in enumerate(items):
        d = os.path.join(chk.work, "g%d" % gi)
        for k in range(nproc):
            jobs.append((bin_, text, d, k))
    results = core.tmap(gen_cli, jobs)
    ref = {}
    accepted = []
    for gi, (name, text) in enumerate(items):
        rs = results[gi * nproc:(gi + 1) * nproc]
        statuses = {r[0] for r in rs}
        hashes = {r[1] for r in rs}
        chk.evaluations += nproc
        if statuses != {"ok"}:
            if len(statuses) > 1:
                chk.violation({"kind": "nondeterministic_outcome", "sig": "outcome", "summary": "%s: outcomes %s across processes" % (name, statuses), "grammar": text})
            chk.count("not_accepted")
            continue
        if len(hashes) != 1:
            chk.violation({"kind": "different_bytes_across_processes", "sig": "processes", "summary": "%s: %d distinct outputs in %d processes" % (name, len(hashes), nproc),
                           "grammar": text, "hashes": sorted(hashes)})
            continue
        ref[gi] = (rs[0][1], rs[0][2])
        accepted.append(gi)
        chk.nontriv(("alone", core.sha(text)[:12]))
        chk.count("grammars_identical_in_%d_processes" % nproc)
    # process_file through the API
    for gi in accepted[: {"quick": 25, "thorough": 300}[tier]]:
        name, text = items[gi]
        d = core.ensure_dir(os.path.join(chk.work, "api%d" % gi), wipe=True)
        p = os.path.join(d, "g.lalrpop")
        open(p, "w").write(text)
        r = apidriver.call({"op": "process_file", "path": p, "out_dir": d, "force": True})
        chk.evaluations += 1
        out = os.path.join(d, "g.rs")
        if r["status"] != "ok" or not os.path.exists(out):
            chk.violation({"kind": "api_outcome_differs", "sig": "api", "summary": "%s: CLI accepts, process_file says %s %s" % (name, r["status"], r["msg"][:200]), "grammar": text})
            continue
        h = hashlib.sha256(open(out, "rb").read()).hexdigest()
        if h != ref[gi][0]:
            chk.violation({"kind": "api_bytes_differ", "sig": "api_bytes", "summary": "%s: process_file output differs from the CLI output" % name, "grammar": text})
        else:
            chk.count("process_file_identical")
    # process_dir batches: random composition, permuted names, invalid neighbours
    nb = {"quick": 12, "thorough": 150}[tier]
    orders = set()
    for b in range(nb):
        k = rng.randint(2, 7)
        members = rng.sample(accepted, min(k, len(accepted)))
        d = core.ensure_dir(os.path.join(chk.work, "batch%d" % b), wipe=True)
        src = core.ensure_dir(os.path.join(d, "in"))
        out = core.ensure_dir(os.path.join(d, "out"))
        names = ["%s%02d" % (rng.choice("abcxyz"), i) for i in range(len(members))]
        rng.shuffle(names)
        for gi, nm in zip(members, names):
            sub = rng.choice(["", "sub", "src", "a/b"])
            core.ensure_dir(os.path.join(src, sub))
            open(os.path.join(src, sub, nm + ".lalrpop"), "w").write(items[gi][1])
        orders.add(tuple(sorted(zip(names, members))))
        r = apidriver.call({"op": "process_dir", "path": src, "out_dir": out, "force": True}, timeout=600)
        chk.evaluations += 1
        if r["status"] != "ok":
            chk.violation({"kind": "batch_failed", "sig": "batch", "summary": "process_dir over accepted grammars failed: %s %s" % (r["status"], r["msg"][:300])})
            continue
        found = {}
        for root, _, files in os.walk(out):
            for f in files:
                if f.endswith(".rs"):
                    found[f[:-3]] = os.path.join(root, f)
        for gi, nm in zip(members, names):
            if nm not in found:
                chk.violation({"kind": "batch_output_missing", "sig": "batch_missing", "summary": "no output for %s in batch" % nm})
                continue
            h = hashlib.sha256(open(found[nm], "rb").read()).hexdigest()
            if h != ref[gi][0]:
                chk.violation({"kind": "batch_bytes_differ", "sig": "batch_bytes", "summary": "%s: output inside a process_dir batch differs from the output when processed alone" % items[gi][0],
                               "grammar": items[gi][1], "batch_members": [items[m][0] for m in members]})
            else:
                chk.count("batch_outputs_identical")
                chk.nontriv(("batch", b, nm))
        shutil.rmtree(d, ignore_errors=True)
    chk.extra["processes_per_grammar"] = nproc
    chk.extra["batches"] = nb
    chk.extra["distinct_batch_orders"] = len(orders)
    chk.sample({"grammar_name": items[accepted[0]][0], "sha256_of_output": ref[accepted[0]][0]} if accepted else "none accepted")
    chk.rule = "grammar (generator profiles core/loc/macros/prec/recovery/lane/lexer + repository corpus) generated in N separate processes (each with fresh hash seeds), through process_file, and inside process_dir batches with random composition, sub-directories and permuted file names; byte equality; distinct by grammar text / batch slot"
    chk.assumptions = ["hash-seed dependence shows with probability < 1 per process pair: N processes bound the miss probability, they do not eliminate it"]
    for gi in range(len(items)):
        shutil.rmtree(os.path.join(chk.work, "g%d" % gi), ignore_errors=True)
    return chk.finish(min_nontrivial=30, min_evaluations=200)


def replay(path, seed):
    print("replay: witness holds the grammar text; generate it repeatedly with the CLI and compare")
    return 0
