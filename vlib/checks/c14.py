"""C14: #[inline] preserves language and results; inlined actions run left to right just before
the host production's action (reference evaluator in inlined order)."""
import copy
import json

from .. import core, earley, gen, gen3, gmodel, pipeline
from ..subject import CONFIGS

ALL_TAGS = [c[0] for c in CONFIGS]


def variants(rng, c, k):
    out = []
    if getattr(c.g, "probe", None) == "F13":
        g2 = copy.deepcopy(c.g)
        gen.add_user_inline(rng, g2, subset=set(c.g.probe_inline))
        return [(g2, gmodel.grammar_text(g2), gmodel.desugar(g2))]
    cand = gen.inlinable(c.g)
    seen = set()
    for _ in range(k * 3):
        if len(out) >= k or not cand:
            break
        sub = tuple(sorted(rng.sample(cand, rng.randint(1, min(3, len(cand))))))
        if sub in seen:
            continue
        seen.add(sub)
        g2 = copy.deepcopy(c.g)
        gen.add_user_inline(rng, g2, subset=set(sub))
        out.append((g2, gmodel.grammar_text(g2), gmodel.desugar(g2)))
    return out


def _segments(events, inline_pids):
    """split an action log into (non-inline pid sequence, list of inline runs between them)"""
    heads = []
    runs = [[]]
    for p in events:
        if p in inline_pids:
            runs[-1].append(p)
        else:
            heads.append(p)
            runs.append([])
    return heads, runs


def _diverges(paths):
    """True when two events of one host production come from DISTINCT inlined nonterminals that
    occur in the same (host or inlined) production: their paths through the inlined nodes share a
    prefix and then continue with different nonterminal names."""
    for i in range(len(paths)):
        for j in range(i + 1, len(paths)):
            p, q = paths[i], paths[j]
            for d in range(min(len(p), len(q))):
                if p[d] != q[d]:
                    if p[d][1] != q[d][1]:
                        return True
                    break
    return False


def _blocks(exp_run, exp_orig):
    """split one expected inline run into blocks of events that belong to the same host reduction"""
    out = []
    for p, (h, path) in zip(exp_run, exp_orig):
        if out and out[-1][0] == h:
            out[-1][1].append(p)
            out[-1][2].append(path)
        else:
            out.append((h, [p], [path]))
    return out


def f13_matcher(case, full_expected, full_origins, got_events, complete):
    """F13: the action log differs from the reference only by the order of actions of DISTINCT
    inlined nonterminals (user #[inline] ones, or the anonymous ones behind `(..)` and `?`) that
    were inlined into the same production: the inliner nests one wrapper per inlined nonterminal,
    so they run in reverse inlining order, not left to right.  Signature: non-inline actions in the
    reference order; per host reduction the same multiset of inlined actions; every host whose
    inlined actions are permuted has two of them coming from distinct inlined nonterminals of one
    production.  `complete`: the observed run did not stop at a failing action."""
    pid_nt = {a.pid: nt.name for nt in case.g.nts for a in nt.alts if a.pid is not None}
    inline_pids = {p for p, n in pid_nt.items() if case.g.nt(n).inline}
    he, re_ = _segments(full_expected, inline_pids)
    hg, rg = _segments(got_events, inline_pids)
    # origins of the expected inline runs, aligned with re_
    ro = [[]]
    for p, o in zip(full_expected, full_origins):
        if p in inline_pids:
            ro[-1].append(o)
        else:
            ro.append([])

    def run_ok(exp_run, exp_orig, got_run, partial=False):
        """-> None (not explained by F13) | False (equal) | True (differs, explained)"""
        differ = False
        pos = 0
        for (h, pids, paths) in _blocks(exp_run, exp_orig):
            g = got_run[pos:pos + len(pids)]
            pos += len(pids)
            if partial and len(g) < len(pids):
                rest = list(pids)
                for x in g:
                    if x not in rest:
                        return None
                    rest.remove(x)
                if g != pids[:len(g)]:
                    if not _diverges(paths):
                        return None
                    differ = True
                if pos < len(got_run):
                    return None
                return differ
            if g != pids:
                if sorted(g) != sorted(pids) or not _diverges(paths):
                    return None
                differ = True
        if pos != len(got_run):
            return None
        return differ

    if complete:
        if he != hg or len(re_) != len(rg):
            return False
        differ = False
        for a, o, b in zip(re_, ro, rg):
            r = run_ok(a, o, b)
            if r is None:
                return False
            differ = differ or r
        return differ
    # stopped at a failure: observed log must be consistent with a reordering of the last run
    if hg != he[:len(hg)] or len(rg) != len(hg) + 1:
        return False
    differ = False
    for a, o, b in zip(re_[:len(rg) - 1], ro[:len(rg) - 1], rg[:-1]):
        r = run_ok(a, o, b)
        if r is None:
            return False
        differ = differ or r
    li = len(rg) - 1
    exp_last = list(re_[li]) if li < len(re_) else []
    org_last = list(ro[li]) if li < len(ro) else []
    r = run_ok(exp_last, org_last, rg[-1], partial=True)
    if r is None:
        return False
    return differ or r


def run(tier, seed):
    chk = core.Check("C14", "exploration", tier, seed)
    rng = chk.rng("gen")
    vrng = chk.rng("variants")
    n_gram = {"quick": 36, "thorough": 250}[tier]
    nvar = {"quick": 2, "thorough": 4}[tier]
    gk = dict(fallible=0.35, sugar=0.12, nnt=(2, 5), modes=("user", "user", "user", "unit", "pick", "single"))
    from .. import probes
    _st = {"first": True}

    def with_probe(r, inner):
        if _st["first"]:
            _st["first"] = False
            return probes.f13_grammar()
        return inner(r)
    subj, cases = pipeline.make_cases(
        chk, rng, n_gram, lambda r: with_probe(r, lambda r: (gen3.add_inline_pair(r, gen.gen_core(r, **gk)) if r.random() < 0.5 else gen.gen_core(r, **gk))), ALL_TAGS,
        want=lambda g, cfg: len(gen.inlinable(g)) >= 1,
        variants_fn=lambda c: variants(vrng, c, nvar))
    irng = chk.rng("inputs")
    execs = []
    groups = []
    budget = {"quick": (60, 60, 40, 30), "thorough": (300, 200, 150, 60)}[tier]
    for c in cases:
        pipeline.inputs_for_case(irng, c, exhaustive_budget=budget[0], nrandom=budget[1], nmut=budget[2], max_len=budget[3], foreign=False)
        for w in getattr(c.g, "probe_inputs", []):
            for s0 in c.inputs:
                if w not in c.inputs[s0]:
                    c.inputs[s0].append(w)
        fall = sorted({a.pid for nt in c.g.nts for a in nt.alts if a.fallible})
        for s, ins in c.inputs.items():
            for w in ins:
                gap = irng.choice([0, 5])
                plans = [None]
                if fall:
                    plans.append([(irng.choice(fall), irng.choice([-1, -1, 0, 1]))])
                    if irng.random() < 0.3:
                        plans.append([(p, -1) for p in irng.sample(fall, min(2, len(fall)))])
                for f in plans:
                    for tag in ALL_TAGS:
                        if tag not in c.mods:
                            continue
                        eb = pipeline.Exec(c, s, w, gap, tag, fails=f)
                        execs.append(eb)
                        for vc in c.variants:
                            if tag in vc.mods:
                                ev = pipeline.Exec(vc, s, w, gap, tag, fails=f)
                                execs.append(ev)
                                groups.append((eb, ev))
    res = pipeline.run_execs(subj, execs)
    orcs = {}

    def oracle(e):
        key = (e.case.idx, e.start, tuple(e.toks), e.gap, str(e.fails))
        if key not in orcs:
            orcs[key] = pipeline.Oracle(e.case, e.start, e.toks, e.gap, fails=e.fails)
        return orcs[key]

    for c in cases:
        for vc in c.variants:
            for tag in ALL_TAGS:
                if c.status.get(tag) == "ok" and vc.status.get(tag) != "ok":
                    chk.count("variant_not_accepted_%s" % vc.status.get(tag))
    for (eb, ev) in groups:
        rb, rv = res.get(eb.idx), res.get(ev.idx)
        chk.evaluations += 1
        if not rb or not rv or rb.get("timeout") or rv.get("timeout"):
            chk.inconclusive += 1
            continue
        if rb.get("panic") or rv.get("panic") or "crash" in rb or "crash" in rv:
            chk.count("panic_or_crash_seen_(C08)")
            continue
        ob = oracle(eb)
        ov = oracle(ev)
        a, b = rb["r"], rv["r"]
        nfail = len(eb.fails) if eb.fails else 0
        inl = sorted(nt.name for nt in ev.case.g.nts if nt.inline)

        def viol(kind, detail, order_related=False):
            w = pipeline.witness(ev.case, ev, rv, ov, kind, detail)
            w["base_grammar"] = eb.case.text
            w["inlined"] = inl
            m = None
            if order_related:
                full = oracle(pipeline.Exec(ev.case, ev.start, ev.toks, ev.gap, ev.tag, fails=None))
                if full.accepted and full.tree is not None and full.eval[0] == "ok":
                    got = [x[1] for x in pipeline.parse_events(rv["ev"]) if x[0] == "a"]
                    fe, fo = earley.evaluate_origins(full.tree, full.kinds, (), spans=full.spans,
                                                     inline_nts=getattr(ev.case.cfg, "inline_nts", ()))
                    is_f13 = f13_matcher(ev.case, fe, fo, got, complete=("ok" in rv["r"]))
                    m = (lambda k, w_: k.get("id") == "F13" and is_f13)
            chk.violation(w, m)
        # (1) differential: acceptance, value, user error
        if ob.accepted:
            if ("ok" in a) != ("ok" in b) and nfail == 0:
                viol("inline_changes_acceptance", {"base": a, "inlined": b})
            elif "ok" in a and "ok" in b and a != b:
                viol("inline_changes_value", {"base": a, "inlined": b})
            elif nfail <= 1 and a != b and not ("ok" in a and "ok" in b):
                # at most one failing action: the surfaced user error must be the same one
                ua = a.get("e", [None, [None]])[1][0] if a.get("err") == "User" else None
                ub = b.get("e", [None, [None]])[1][0] if b.get("err") == "User" else None
                if ua != ub or ("ok" in a) != ("ok" in b):
                    viol("inline_changes_user_error", {"base": a, "inlined": b})
            chk.nontriv((core.sha(ev.case.text)[:10], ev.tag, ev.start, tuple(ev.toks), str(ev.fails)))
        else:
            if nfail == 0 and pipeline.strip_expected(a) != pipeline.strip_expected(b):
                viol("inline_changes_error", {"base": a, "inlined": b})
        # (2) order of inlined actions: reference evaluator in inlined order on the inlined grammar
        if ov.accepted and not ov.ambiguous and ov.tree is not None:
            st, val, exp_events = ov.eval
            acts = [x[1] for x in pipeline.parse_events(rv["ev"]) if x[0] == "a"]
            if st == "ok":
                if "ok" in b and acts != exp_events:
                    viol("inlined_action_order", {"expected_events": exp_events, "got": acts}, True)
                chk.count("inlined_order_checked")
            else:
                want = {"err": "User", "e": ["P", [["L", val[0]], ["L", val[1]]]]}
                if b != want:
                    viol("inlined_first_failure", {"reference": want, "got": b}, True)
                elif acts != exp_events:
                    viol("inlined_action_order_before_failure", {"expected_events": exp_events, "got": acts}, True)
                chk.count("inlined_failures_checked")
        if chk.evaluations % 2499 == 1:
            chk.sample({"base_grammar": eb.case.text, "inlined": inl, "config": ev.tag, "input": ev.toks, "fails": ev.fails,
                        "base_result": a, "inlined_result": b, "inlined_events": rv["ev"]})
    chk.rule = "pair (grammar, grammar + #[inline] on a random subset of non-recursive non-pub nonterminals), both accepted, same config, same input and same failing-action plan; distinct by (inlined grammar hash, config, input, plan); non-trivial = sentence of the language"
    chk.extra["base_grammars"] = len(cases)
    chk.extra["inline_variants"] = sum(len(c.variants) for c in cases)
    chk.assumptions = ["user errors are compared differentially only with <= 1 failing action (with several, the statement's two sentences disagree; then only the inlined-order reference is applied)"]
    return chk.finish(min_nontrivial=50, min_evaluations=500)


def replay(path, seed):
    print("replay: re-run ./check C14 with the same VERIF_SEED to reproduce (pair witnesses)")
    return 0
