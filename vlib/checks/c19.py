"""C19: accepted grammars compile: inferred types agree with the generated code.
Every module LALRPOP accepts is type-checked by rustc inside a subject crate against the current
lalrpop-util; the user-written parts are well-typed by construction (proved by the support code
compiling on its own and by the templates compiling in at least one configuration)."""
import random

from .. import core, gen, gen2, gen3, gmodel, lexgen, subject

EXT_TOK = """extern {
    type Location = usize;
    type Error = UErr;
    enum Tok {
        "a" => Tok { kind: K0, .. },
        "b" => Tok { kind: K1, .. },
        "c" => Tok { kind: K2, .. },
        "," => Tok { kind: K3, .. },
    }
}
"""


def templates(rng):
    """(name, text, kind, starts) hand-written type-rich grammars with random variation"""
    out = []
    cfg = lambda: rng.choice(["", "", "#[recursive_ascent]", "#[LALR]", "#[recursive_ascent]\n#[LALR]"])
    # terminals with 0 / 1 / 2 bindings and struct patterns
    out.append(("bind", """use crate::support::*;
%s
grammar;
extern {
    type Location = usize;
    type Error = UErr;
    enum Tk {
        "a" => Tk::A,
        "b" => Tk::B(<u32>),
        "c" => Tk::C(<u32>, <String>),
        "d" => Tk::D { x: <u32>, .. },
        "e" => Tk::E(<Box<Tk>>),
    }
}
pub S: (u32, String) = {
    <x:"b"> <c:"c"> => (x + c.0, c.1),
    "a" <d:"d"> "a" => (d, String::new()),
    <t:"a"> <e:"e"> => { let _: (Tk, Box<Tk>) = (t, e); (0, String::new()) },
    %s
};
pub P = { <"b"> <"c"> };
pub Q = "d"%s;
""" % (cfg(), rng.choice(["", '<l:@L> "b" "b" <r:@R> => ((r - l) as u32, String::new()),']), rng.choice(["*", "+", "?", ""])), "none", []))
    # generics, lifetimes, where clauses, associated types, grammar parameters
    out.append(("generic", """use crate::support::*;
%s
grammar<'a, T>(env: &'a T, log: &mut Vec<u32>) where T: Env;
%s
pub S: Vec<T::Out> = { <v:Item*> => v };
Item: T::Out = {
    "a" => { log.push(1); env.mk(1) },
    "b" <i:Item> "c" => i,
};
pub Pair: (T::Out, Option<T::Out>) = { <Item> "," <Item?> };
""" % (cfg(), EXT_TOK), "none", []))
    # macro type parameters, Vec/Option from repeats, tuples
    out.append(("macrotype", """use crate::support::*;
%s
grammar;
%s
Comma<T>: Vec<T> = {
    <mut v:(<T> ",")*> <e:T?> => match e { None => v, Some(e) => { v.push(e); v } }
};
Either<A, B>: (Option<A>, Option<B>) = {
    <a:A> => (Some(a), None),
    "c" <b:B> => (None, Some(b)),
};
pub S: (Vec<Tok>, usize) = { <l:@L> <c:Comma<"a">> "b" => (c, l) };
pub R = Comma<Either<"a", "b">>;
pub O: Option<(Tok, Tok)> = { ("a" "b")? };
pub N: Vec<Vec<Tok>> = { Comma<"a"+>%s };
""" % (cfg(), EXT_TOK, rng.choice(["", ""])), "none", []))
    # built-in lexer: borrowed results and the 'input lifetime
    out.append(("lexlife", """%s
grammar;
pub S: Vec<&'input str> = <W*>;
W: &'input str = { <r"[a-z]+">, "(" <W> ")" };
pub T: (usize, &'input str, usize) = { @L r"[0-9]+" @R };
pub U: Option<&'input str> = { "[" <r"[a-z]+"?> "]" };
""" % cfg(), "none", []))
    # recursive boxed type
    out.append(("boxed", """use crate::support::*;
%s
grammar;
%s
pub E: Box<Expr> = {
    <l:E> "," <r:F> => Box::new(Expr::Add(l, r)),
    F,
};
F: Box<Expr> = {
    "a" => Box::new(Expr::Num(1)),
    "b" <F> => Box::new(Expr::Neg(<>)),
    "c" <e:E> "c" => e,
};
pub U: () = { "a" "b", "c" => (), };
pub V2: ((), Tok) = { U "a" };
""" % (cfg(), EXT_TOK), "none", []))
    # token type with a lifetime, error recovery, closures as grammar parameters, visibility forms
    out.append(("lifetime_recovery", """use crate::support::*;
use lalrpop_util::ErrorRecovery;
%s
grammar<'input, 'e, F>(errors: &'e mut Vec<ErrorRecovery<usize, TokL<'input>, UErr>>, f: &mut F) where F: FnMut(&'input str) -> usize;
extern {
    type Location = usize;
    type Error = UErr;
    enum TokL<'input> {
        "+" => TokL::Plus,
        ";" => TokL::Semi,
        Word => TokL::Word(<&'input str>),
        Num => TokL::Num(<i64>),
    }
}
pub%s Stmts: Vec<(usize, i64)> = { <Stmt*> };
Stmt: (usize, i64) = {
    <w:Word> <e:Expr> ";" => (f(w), e),
    <l:@L> <err:!> ";" => { errors.push(err); (l, -1) },
};
Expr: i64 = {
    <l:Expr> "+" <r:Num> => l + r,
    Num,
    <w:Word> => w.len() as i64,
};
pub(crate) Words: Vec<&'input str> = { Word+ };
""" % (rng.choice(["", "#[LALR]"]), rng.choice(["", "(crate)", "(super)"])), "none", []))
    out.append(("tuples_inline", """use crate::support::*;
%s
grammar;
%s
#[inline]
Two: (Tok, Tok) = { "a" "b" };
Three = { Two "c" };
pub S: (usize, Tok, Tok) = { <l:@L> <(x, y):Two> => (l, x, y) };
pub T: Vec<((Tok, Tok), Tok)> = { Three* };
pub U: Option<(Tok, (Tok, Tok))> = { ("c" Two)? };
pub W: (Tok, Tok) = { <(p, (q, r)):(<"a"> (<"b"> <"c">))> => (p, q) };
""" % (cfg(), EXT_TOK), "none", []))
    return out


def run(tier, seed):
    chk = core.Check("C19", "exploration", tier, seed)
    rng = chk.rng("gen")
    subj = subject.Subject(chk.work)
    specs = []
    n = {"quick": 20, "thorough": 250}[tier]
    profiles = [
        ("core", lambda r: gen.gen_core(r, pat=0.6, fallible=0.3, sugar=0.25), "extern"),
        ("loc", lambda r: gen.gen_loc(r), "extern"),
        ("macros", gen2.gen_macros, "extern"),
        ("prec", gen2.gen_prec, "extern"),
        ("recovery", gen2.gen_recovery, "extern"),
        ("lane", gen3.gen_lane_stress, "extern"),
        ("overlaploc", gen3.gen_prefix_overlap_loc, "extern"),
    ]
    for pname, mk, kind in profiles:
        for i in range(n):
            try:
                g = mk(rng)
            except Exception:
                continue
            text = gmodel.grammar_text(g)
            tags = ["td_lane", "ra_lane"] if pname != "recovery" else ["td_lane", "td_lalr"]
            for tag in tags:
                specs.append(dict(name="%s%d_%s" % (pname, i, tag), text=text, cfg=tag, starts=g.starts(), kind="none", meta=pname))
    # Clone-only location type
    for i in range(n):
        g = gen.gen_loc(rng, fallible=0.0)
        g.loc_type = "CLoc"
        text = gmodel.grammar_text(g)
        for tag in ("td_lane", "ra_lane"):
            specs.append(dict(name="cloc%d_%s" % (i, tag), text=text, cfg=tag, starts=g.starts(), kind="none", meta="cloc"))
    # built-in lexers (terminal names with quotes, hashes, escapes, non-ASCII)
    for i in range(n * 2):
        sp = lexgen.gen_spec(rng, match_p=0.6, exotic=0.3)
        for tag in ("td_lane", "ra_lane"):
            specs.append(dict(name="lex%d_%s" % (i, tag), text=sp.grammar_text(), cfg=tag, starts=["S"], kind="none", meta="lexer"))
    for rep in range({"quick": 3, "thorough": 20}[tier]):
        for (nm, text, kind, starts) in templates(rng):
            specs.append(dict(name="tpl_%s%d" % (nm, rep), text=text, cfg=None, starts=starts, kind="none", meta="template_" + nm))
    mods = subj.add_many(specs)
    for m in mods:
        chk.count("lalrpop_%s_%s" % (m.meta, m.status))
        if m.status == "error" and m.meta.startswith("template_"):
            chk.extra.setdefault("template_rejections", []).append(m.stderr[-300:])
    ok = subj.build(max_rounds=40)
    for m in mods:
        if m.status != "ok":
            continue
        chk.evaluations += 1
        if m.name in subj.compile_failures and "no method named `to_v` found for tuple" in subj.compile_failures[m.name]:
            # the harness's own rendering trait is implemented for tuples of up to 16 elements:
            # an action selecting more symbols is ill-typed user code, not LALRPOP's doing
            chk.inconclusive += 1
            chk.count("harness_tuple_arity_limit")
        elif m.name in subj.compile_failures:
            chk.violation({"kind": "accepted_grammar_does_not_compile", "sig": m.meta + ":" + subj.compile_failures[m.name].split("\n")[0][:80],
                           "summary": "%s (%s): %s" % (m.name, m.meta, subj.compile_failures[m.name][:500]),
                           "grammar": m.full_text, "rustc": subj.compile_failures[m.name]})
        else:
            chk.count("compiled_" + m.meta)
            chk.nontriv(core.sha(m.full_text)[:12])
    tpl_ok = {m.meta for m in mods if m.meta.startswith("template_") and m.name in ok}
    chk.extra["templates_compiled_in_some_configuration"] = sorted(tpl_ok)
    chk.sample({"profile": "template_generic", "text": templates(random.Random(1))[1][1]})
    chk.rule = "module accepted by LALRPOP (profiles core/loc/macros/prec/recovery/lane/overlap with both back ends, Clone-only Location type, built-in lexers with exotic terminal names, type-rich templates: extern patterns with 0/1/2 bindings and struct patterns, generics + lifetimes + where + associated types + grammar parameters, macro type parameters, 'input borrows, boxed recursive types, unit types) type-checked by rustc; distinct by grammar text"
    chk.assumptions = ["user-written parts are well-typed by construction; a template that fails in EVERY configuration would point at the template, and is reported separately in the evidence"]
    return chk.finish(min_nontrivial=100, min_evaluations=150)


def replay(path, seed):
    print("replay: the witness holds the grammar text and rustc's diagnostics")
    return 0
