"""C16: error recovery yields a well-formed tree and accounts for every token (DESIGN A.9).
Table-driven only (LALRPOP rejects `!` for recursive ascent)."""
import json

from .. import core, earley, gen, gen2, gmodel, pipeline

TAGS = ["td_lane", "td_lr1", "td_lalr"]


class TreeError(Exception):
    pass


def check_tree(g, start, value, toks_n, spans, kinds):
    """-> (leaf ids in order, errors [(l, r, dropped_ids, errjson)]); raises TreeError"""
    alt_by_pid = {}
    for nt in g.nts:
        for a in nt.alts:
            if a.pid is not None:
                alt_by_pid[a.pid] = (nt.name, a)
    leaves = []
    errs = []
    order = []   # in-order sequence of ('t', id) / ('e', index into errs)

    def walk(v, want_nt):
        if not (isinstance(v, list) and v and v[0] == "N"):
            raise TreeError("expected a node for %s, got %r" % (want_nt, v))
        pid, kids = v[1], v[2]
        if pid not in alt_by_pid:
            raise TreeError("unknown production id %r" % pid)
        ntname, alt = alt_by_pid[pid]
        if ntname != want_nt:
            raise TreeError("node of %s where %s is required" % (ntname, want_nt))
        if len(kids) != len(alt.items):
            raise TreeError("production %d has %d symbols, node has %d children" % (pid, len(alt.items), len(kids)))
        for i, (it, k) in enumerate(zip(alt.items, kids)):
            s = it.sym
            if s.k == "t":
                if not (isinstance(k, list) and k[0] == "T"):
                    raise TreeError("terminal %s expected, got %r" % (s.name, k))
                if k[1] != g.terms.index(s.name):
                    raise TreeError("terminal %s expected, got token kind %d" % (s.name, k[1]))
                if not (0 <= k[2] < toks_n) or kinds[k[2]] != k[1]:
                    raise TreeError("leaf %r is not an input token" % (k,))
                leaves.append(k[2])
                order.append(("t", k[2]))
            elif s.k == "n":
                walk(k, s.name)
            elif s.k in ("L", "R"):
                if not (isinstance(k, list) and k[0] == "L"):
                    raise TreeError("location expected, got %r" % (k,))
            elif s.k == "err":
                if not (isinstance(k, list) and k[0] == "R"):
                    raise TreeError("error node expected for `!`, got %r" % (k,))
                if not (i > 0 and alt.items[i - 1].sym.k == "L" and i + 1 < len(alt.items) and alt.items[i + 1].sym.k == "R"):
                    raise core.HarnessError("generator invariant broken: ! without @L/@R")
                l, r = kids[i - 1][1], kids[i + 1][1]
                dropped = []
                for d in k[2]:
                    # ["P", [["L", l], ["T", kind, id], ["L", r]]]
                    dropped.append((d[1][0][1], d[1][1][1], d[1][1][2], d[1][2][1]))
                errs.append((l, r, dropped, k[1]))
                order.append(("e", len(errs) - 1))
            else:
                raise core.HarnessError("unexpected symbol kind in recovery profile: " + s.k)
    walk(value, start)
    return leaves, errs, order


def clauses(g, start, value, toks, spans, kinds, derivable_without_error):
    """returns list of (clause, detail) violations"""
    out = []
    n = len(toks)
    try:
        leaves, errs, order = check_tree(g, start, value, n, spans, kinds)
    except TreeError as e:
        return [("1_not_a_derivation", str(e))], None
    # (2) tokens are a subsequence in order
    if any(b <= a for a, b in zip(leaves, leaves[1:])):
        out.append(("2_tokens_out_of_order", leaves))
    kept = set(leaves)
    # (5) dropped tokens: input tokens, in order, inside the node's span, not in the tree
    for (l, r, dropped, ej) in errs:
        ids = [d[2] for d in dropped]
        if any(b <= a for a, b in zip(ids, ids[1:])):
            out.append(("5_dropped_not_in_order", ids))
        for (dl, dk, di, dr) in dropped:
            if not (0 <= di < n) or kinds[di] != dk or spans[di] != (dl, dr):
                out.append(("5_dropped_not_an_input_token", (dl, dk, di, dr)))
            elif di in kept:
                out.append(("5_dropped_token_also_in_tree", di))
            elif not (l <= dl and dr <= r):
                out.append(("5_dropped_outside_error_span", {"span": (l, r), "token": (dl, di, dr)}))
        if l > r:
            out.append(("4_negative_span", (l, r)))
    # (4) error spans ordered and disjoint; kept tokens outside
    last_r = None
    for (l, r, _, _) in errs:
        if last_r is not None and l < last_r:
            out.append(("4_error_spans_overlap_or_unordered", [(e[0], e[1]) for e in errs]))
            break
        last_r = r
    for i in leaves:
        s, e = spans[i]
        for (l, r, _, _) in errs:
            if s < r and l < e:     # proper overlap of a kept token with an error span
                out.append(("4_kept_token_inside_error_span", {"token": i, "span": (l, r)}))
    # in-order position: an error node between kept tokens a and b must lie between them
    prev_end = None
    for k, x in order:
        if k == "t":
            s, e = spans[x]
            if prev_end is not None and s < prev_end:
                out.append(("4_order_inconsistent", order))
                break
            prev_end = e
        else:
            l, r = errs[x][0], errs[x][1]
            if prev_end is not None and l < prev_end:
                out.append(("4_error_before_previous_symbol_end", {"span": (l, r), "prev_end": prev_end}))
                break
            prev_end = max(prev_end or 0, r)
    # (3) every other input token lies in exactly one error node's span
    for i in range(n):
        if i in kept:
            continue
        s, e = spans[i]
        inside = [(l, r) for (l, r, _, _) in errs if l <= s and e <= r]
        if len(inside) != 1:
            out.append(("3_token_unaccounted", {"token": i, "containing_error_spans": inside}))
    # (6) no recovery on inputs derivable without `!`
    if derivable_without_error and errs:
        out.append(("6_recovery_on_valid_input", [(e[0], e[1]) for e in errs]))
    return out, (leaves, errs)


def monitor(chk, props, case, e, rec, orc):
    if rec is None or rec.get("timeout"):
        chk.inconclusive += 1
        return
    if "crash" in rec or rec.get("panic"):
        chk.count("panic_or_crash_seen_(C08)")
        return
    r = rec["r"]
    if "ok" not in r:
        chk.count("result_err_" + str(r.get("err")))
        # an input derivable without `!` must be accepted
        if case.noerr_ok(e.start, e.toks):
            chk.violation(pipeline.witness(case, e, rec, None, "6_valid_input_rejected", {"got": r}))
        return
    n = len(e.toks)
    spans = [(e.gap + 10 * i + 3, e.gap + 10 * i + 7) for i in range(n)]
    kinds = [case.g.terms.index(t) if t in case.g.terms else len(case.g.terms) for t in e.toks]
    valid = case.noerr_ok(e.start, e.toks)
    viols, info = clauses(case.g, e.start, r["ok"], e.toks, spans, kinds, valid)
    for (cl, detail) in viols:
        chk.violation(pipeline.witness(case, e, rec, None, cl, detail))
    if info:
        leaves, errs = info
        if errs:
            chk.count("parses_with_recovery")
            chk.nontriv((core.sha(case.text)[:10], e.tag, e.start, tuple(e.toks)))
            for (l, r_, dropped, ej) in errs:
                missing_here = [i for i in range(n) if i not in set(leaves) and l <= spans[i][0] and spans[i][1] <= r_]
                if dropped:
                    chk.count("recovery_dropped_tokens")
                if len(missing_here) > len(dropped):
                    chk.count("recovery_popped_states")
                if l == r_ and not dropped:
                    chk.count("recovery_pure_insertion")
                if '"UnrecognizedEof"' in json.dumps(ej):
                    chk.count("recovery_at_eof")
        else:
            chk.count("parses_without_recovery")


def run(tier, seed):
    chk = core.Check("C16", "exploration", tier, seed)
    rng = chk.rng("gen")
    n_gram = {"quick": 70, "thorough": 400}[tier]
    subj, cases = pipeline.make_cases(chk, rng, n_gram, gen2.gen_recovery, TAGS)
    irng = chk.rng("inputs")
    execs = []
    per = {"quick": (40, 120), "thorough": (120, 600)}[tier]
    for c in cases:
        g2 = gen2.strip_errors(c.g)
        c.cfg_noerr = gmodel.desugar(g2)
        memo = {}

        def noerr_ok(start, toks, _c=c, _m=memo):
            k = (start, tuple(toks))
            if k not in _m:
                _m[k] = earley.recognize(_c.cfg_noerr, start, toks)
            return _m[k]
        c.noerr_ok = noerr_ok
        alphabet = list(c.g.terms)
        for s in c.g.starts():
            sents = []
            for _ in range(per[0]):
                w = gen.random_sentence(irng, c.cfg_noerr, s, depth=irng.randint(2, 9), max_len=30)
                if w is not None:
                    sents.append(w)
            ins = [list(w) for w in sents[:per[0] // 2]]
            for _ in range(per[1]):
                base = irng.choice(sents) if sents and irng.random() < 0.85 else [irng.choice(alphabet) for _ in range(irng.randint(0, 10))]
                ins.append(gen.mutate(irng, base, alphabet + ["?"], nmut=irng.choice([1, 1, 2, 2, 3, 4])))
            ins.append([])
            seen = set()
            for w in ins:
                if tuple(w) in seen:
                    continue
                seen.add(tuple(w))
                gap = irng.choice([0, 5])
                for tag in c.mods:
                    execs.append(pipeline.Exec(c, s, w, gap, tag, shape=irng.choice("TR")))
    res = pipeline.run_execs(subj, execs)
    for e in execs:
        chk.evaluations += 1
        rec = res.get(e.idx)
        monitor(chk, {"C16"}, e.case, e, rec, None)
        if chk.evaluations % 1999 == 1 and rec and rec.get("r"):
            chk.sample({"grammar": e.case.text, "config": e.tag, "input": e.toks, "gap": e.gap, "result": rec["r"]})
    chk.rule = "successful parses of grammars with `@L ! @R` error alternatives on sentences with 1-4 insertions/deletions/substitutions and on garbage; non-trivial = the returned tree contains at least one error node; distinct by (grammar hash, config, input)"
    chk.extra["grammars"] = len(cases)
    chk.assumptions = ["every symbol is bound, so the returned value mirrors the derivation", "gapped unique token locations identify tokens"]
    return chk.finish(min_nontrivial=50, min_evaluations=500)


def replay(path, seed):
    from ..replay import replay_pipeline

    def mon(chk, props, case, e, rec, orc):
        g2 = gen2.strip_errors(case.g)
        cfg2 = gmodel.desugar(g2)
        case.noerr_ok = lambda start, toks: earley.recognize(cfg2, start, toks)
        monitor(chk, props, case, e, rec, None)
    return replay_pipeline("C16", path, monitor=mon)
