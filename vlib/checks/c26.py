"""C26: grammar layout is insignificant and embedded Rust is transferred verbatim.
(a) layout: model grammars are printed as token lists and re-rendered with random whitespace,
CRLF, `//` and (nested) `/* */` comments between tokens; acceptance and generated program must
not change.  (b) embedded Rust: actions, `use` items, type annotations and `#![..]` attributes
built from nested delimiters, string / raw string / byte string / char literals, lifetimes next
to char literals, closures, generics, comments containing delimiters; the module must be
accepted, compile, and the action must compute the expected value."""
import os
import random
import shutil
import tempfile

from .. import core, gen, gen2, gmodel, layout, pipeline, subject, tools
from ..subject import wl_line

# (rust expression of type String, expected value)
FRAGS = [
    ('{ let a = "}"; let b = \'{\'; format!("{}{}", a, b) }', "}{"),
    ('{ let s = r"\\"; s.to_string() }', "\\"),
    ('{ let s = r#"x"}"#; s.to_string() }', 'x"}'),
    ('{ let s = r##"a"#b"##; s.to_string() }', 'a"#b'),
    ('{ let c = \'\\\'\'; let d = \'"\'; let e = \'\\\\\'; format!("{}{}{}", c, d, e) }', "'\"\\"),
    ('{ fn f<\'a>(x: &\'a str) -> &\'a str { x } let q = f("\'"); q.to_string() }', "'"),
    ('{ let v = Vec::<(u8, [u8; 2])>::new(); format!("{}", v.len()) }', "0"),
    ('{ let f = |x: u32| -> u32 { x + 1 }; format!("{}", f(1)) }', "2"),
    ('{ let x = 1; let r = match x { 1 => "a,b", _ => ";" }; r.to_string() }', "a,b"),
    ('{ /* } */ let y = 3; // {\n format!("{}", y) }', "3"),
    ('{ /* outer /* inner } */ ) */ String::from("n") }', "n"),
    ('{ let b = b"{"; let c = br"\\"; format!("{}{}", b.len(), c.len()) }', "11"),
    ('{ let t = ("(", \')\', ["[", "]"]); format!("{}{}{}{}", t.0, t.1, t.2[0], t.2[1]) }', "()[]"),
    ('{ let s = "a\\"b\\\\"; s.to_string() }', 'a"b\\'),
    ('{ let s = "multi\nline"; s.replace("\\n", "/") }', "multi/line"),
    ('{ struct P { a: u8 } let p = P { a: 7 }; format!("{}", p.a) }', "7"),
    ('{ let x: Result<u8, ()> = Ok(2); if let Ok(v) = x { format!("{}", v << 1 >> 1) } else { String::new() } }', "2"),
    ('{ let v = vec![1u8, 2, 3]; let s: Vec<String> = v.iter().map(|x| format!("{x}")).collect(); s.join(";") }', "1;2;3"),
    ('{ let l = \'x\'; let lt: &\'static str = "s"; format!("{}{}", l, lt) }', "xs"),
    ('{ let r = r"C:\\dir\\"; r.len().to_string() }', "7"),
    ('{ let q = "//not a comment"; let z = "/* nor this"; format!("{}{}", q.len(), z.len()) }', "1511"),
    ("{ let c = '{'; let d = '}'; let e = '('; format!(\"{}{}{}\", c, d, e) }", "{}("),
]


def snippet(rng):
    k = rng.randint(1, 4)
    fr = rng.sample(FRAGS, k)
    code = "{ let parts: Vec<String> = vec![" + ", ".join(f[0] for f in fr) + "]; parts.join(\"|\") }"
    return code, "|".join(f[1] for f in fr)


USES = ["use std::collections::{HashMap as Hm, BTreeMap};", "use std::{fmt::{self, Debug}, str};", "use std::string::String as Sx;", ""]
TYPES = [("String", "%s"), ("(String, (u8, u8))", "(%s, (1, 2))"), ("Vec<(&'static str, String)>", "vec![(\"k\", %s)]"), ("Option<Box<String>>", "Some(Box::new(%s))"), ("Result<String, &'static str>", "Ok::<String, &'static str>(%s)")]


def embed_grammar(rng, idx):
    code, expect = snippet(rng)
    ty, wrap = rng.choice(TYPES)
    attrs = rng.choice(["", "#![allow(unused_variables, dead_code)]\n", "#![allow(clippy::all)]\n#![allow(unused)]\n"])
    text = """%suse crate::support::*;
%s
/*@CONFIG@*/
grammar;
extern {
    type Location = usize;
    type Error = UErr;
    enum Tok {
        "a" => Tok { kind: K0, .. },
        "b" => Tok { kind: K1, .. },
    }
}
pub S: String = {
    <x:Inner> => format!("{:?}", x),
};
Inner: %s = {
    "a" => { %s },
    "b" "a" =>? { Ok(%s) },
};
""" % (attrs, rng.choice(USES), ty, wrap % code, wrap % code)
    # expected Debug rendering of the wrapped value
    def dbg(s):
        return '"' + s.replace("\\", "\\\\").replace('"', '\\"').replace("\n", "\\n") + '"'
    exp = {"String": dbg(expect), "(String, (u8, u8))": "(%s, (1, 2))" % dbg(expect), "Vec<(&'static str, String)>": '[("k", %s)]' % dbg(expect),
           "Option<Box<String>>": "Some(%s)" % dbg(expect), "Result<String, &'static str>": "Ok(%s)" % dbg(expect)}[ty]
    return text, exp


def strip_header(data):
    parts = data.split(b"\n", 2)
    return parts[2] if len(parts) == 3 else data


def layout_job(args):
    seed, bin_, work = args
    rng = random.Random(seed)
    mk = rng.choice([lambda r: gen.gen_core(r, fallible=0.2, sugar=0.25, pat=0.4), gen2.gen_macros, gen2.gen_prec, gen.gen_loc, gen2.gen_recovery])
    try:
        g = mk(rng)
    except Exception:
        return None
    toks = layout.grammar_tokens(g, rng.choice(["", "", "#[LALR]"]))
    texts = [layout.render(toks)] + [layout.render(toks, rng) for _ in range(4)]
    outs = []
    d = tempfile.mkdtemp(dir=work)
    try:
        for i, t in enumerate(texts):
            p = os.path.join(d, "v%d.lalrpop" % i)
            with open(p, "w", newline="") as f:
                f.write(t)
            res = subject.run_lalrpop(bin_, p, out_dir=d)
            st = subject.classify_cli(res)
            rs = os.path.join(d, "v%d.rs" % i)
            outs.append((st, strip_header(open(rs, "rb").read()) if st == "ok" and os.path.exists(rs) else None, res["stderr"][-300:]))
    finally:
        shutil.rmtree(d, ignore_errors=True)
    recs = []
    for i in range(1, len(texts)):
        st0, o0, _ = outs[0]
        st, o, err = outs[i]
        if (st0 == "ok") != (st == "ok"):
            recs.append(("layout_changes_acceptance", texts[0], texts[i], "%s vs %s: %s" % (st0, st, err)))
        elif st0 == "ok":
            if o0 == o:
                recs.append(("same", None, None, None))
            else:
                c = tools.call({"op": "tokcmp", "a": o0.decode(errors="replace"), "b": o.decode(errors="replace")})
                recs.append(("same_tokens" if c.get("equal") else "layout_changes_program", texts[0], texts[i], str(c)[:300]))
        else:
            recs.append(("both_rejected", None, None, None))
    return recs


def run(tier, seed):
    chk = core.Check("C26", "exploration", tier, seed)
    bin_ = core.build_lalrpop()
    tools.build()
    base = core.seed_for("C26", seed) % (2 ** 31)
    n = {"quick": 400, "thorough": 5000}[tier]
    res = core.pmap(layout_job, [(base + i, bin_, chk.work) for i in range(n)], chunksize=4)
    for i, recs in enumerate(res):
        if not recs:
            continue
        for (kind, a, b, detail) in recs:
            chk.evaluations += 1
            chk.count("layout_" + kind)
            if kind in ("layout_changes_acceptance", "layout_changes_program"):
                chk.violation({"kind": kind, "sig": kind, "summary": "%s: %s" % (kind, detail), "canonical": a, "variant": b})
            elif kind in ("same", "same_tokens"):
                chk.nontriv(("layout", base + i, chk.evaluations))
    # (b) embedded Rust
    rng = chk.rng("embed")
    m = {"quick": 90, "thorough": 600}[tier]
    subj = subject.Subject(chk.work)
    specs = []
    expect = {}
    for i in range(m):
        text, exp = embed_grammar(rng, i)
        for tag in ("td_lane", "ra_lane"):
            name = "e%d_%s" % (i, tag)
            specs.append(dict(name=name, text=text, cfg=tag, starts=["S"], kind="extern"))
            expect[name] = exp
    mods = subj.add_many(specs)
    for md in mods:
        chk.evaluations += 1
        if md.status != "ok":
            chk.violation({"kind": "valid_rust_rejected" if md.status == "error" else "panic", "sig": "embed_" + md.status, "summary": "embedded Rust rejected: %s" % md.stderr[-400:], "grammar": md.full_text})
    ok = set(subj.build(max_rounds=40))
    lines = []
    idx = {}
    for md in mods:
        if md.status != "ok":
            continue
        if md.name not in ok:
            chk.violation({"kind": "embedded_rust_garbled_(does_not_compile)", "sig": "embed_compile", "summary": subj.compile_failures.get(md.name, "")[:500], "grammar": md.full_text})
            continue
        for toks in ([(0, 3, 7)], [(1, 3, 7), (0, 13, 17)]):
            i = len(lines)
            lines.append(wl_line(i, md.name, "S", toks=toks))
            idx[i] = md
    out = subj.run(lines)
    for i, md in idx.items():
        rec = out.get(i)
        chk.evaluations += 1
        if not rec or rec.get("timeout"):
            chk.inconclusive += 1
            continue
        want = {"ok": ["S", expect[md.name]]}
        if rec.get("r") != want:
            chk.violation({"kind": "embedded_rust_changed_meaning", "sig": "embed_value", "summary": "expected %s got %s" % (want, rec.get("r") or rec.get("panic")), "grammar": md.full_text})
        else:
            chk.count("embedded_values_equal")
            chk.nontriv(("embed", md.name, i))
    chk.sample({"embedded_action": embed_grammar(random.Random(3), 0)[0][-600:]})
    chk.sample({"layout_variant": layout.render(layout.grammar_tokens(gen.gen_core(random.Random(4))), random.Random(5))[:800]})
    chk.rule = "(a) model grammar rendered canonically and in 4 random layouts (spaces, tabs, newlines, CRLF, // and nested /* */ comments, also containing delimiters) -> same acceptance and same program; (b) grammar whose action / use / type annotation / #![..] fragments are tricky valid Rust computing a known string -> accepted, compiles, computes that string in both back ends; distinct by (grammar seed, variant) / (fragment combination, config, input)"
    chk.assumptions = ["whitespace is never inserted inside lexical forms LALRPOP defines by adjacency (`Name<`, `=>?`, `=>@L`, `r\"`, `#![`) nor inside action code", "`<>` is not used inside embedded strings (LALRPOP documents its substitution)"]
    return chk.finish(min_nontrivial=200, min_evaluations=500)


def replay(path, seed):
    print("replay: the witness holds the grammar text(s)")
    return 0
