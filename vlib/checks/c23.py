"""C23: each grammar file maps to exactly one output at the documented path.
Random directory trees (nesting, `src` components at the top and deeper, symlinks to files and
directories, dangling links, names with dots/spaces/tabs/non-UTF-8 bytes, upper-case extension,
non-grammar files) x configurations (CLI with/without -o; Configuration::process_dir / process /
process_current_dir / process_file; out_dir, in_dir+out_dir, cargo conventions via OUT_DIR,
in-source) x emit_rerun_directives.  Oracle: path calculator written from the statement +
snapshot diff of the file system + reference content per grammar."""
import os
import random
import shutil

from .. import apidriver, core

TEMPLATE = 'grammar;\nextern { type Location = usize; enum Tok { "a" => Tok::A } }\npub S: u32 = { "a" => %d };\n'


def make_tree(rng, root):
    """returns dict: relpath(bytes) -> kind, with grammar texts"""
    files = {}       # rel path (str, may contain surrogateescape) -> text  (real grammar files)
    others = []
    dirs = [""]
    for _ in range(rng.randint(0, 5)):
        parent = rng.choice(dirs)
        name = rng.choice(["a", "b", "src", "src", "sub.d", "x y", "deep", "SRC"])
        d = os.path.join(parent, name)
        if d not in dirs and d.count(os.sep) < 4:
            dirs.append(d)
    for d in dirs:
        os.makedirs(os.path.join(root, d), exist_ok=True)
    n = 0
    good_names = ["g", "lib", "a.b", "expr", "x-1", "_u", "G"]
    for d in dirs:
        for _ in range(rng.choice([0, 1, 1, 2])):
            nm = rng.choice(good_names) + ".lalrpop"
            rel = os.path.join(d, nm)
            if rel in files:
                continue
            n += 1
            files[rel] = TEMPLATE % n
            open(os.path.join(root, rel), "w").write(files[rel])
    # non-grammar and odd files
    for d in rng.sample(dirs, min(len(dirs), 2)):
        for nm in rng.sample(["notes.txt", "UP.LALRPOP", "g.lalrpop.bak", "lalrpop", ".lalrpop", "x.lalrpopx", "Makefile"], 2):
            p = os.path.join(root, d, nm)
            if not os.path.exists(p):
                n += 1
                open(p, "w").write(TEMPLATE % n)
                others.append(os.path.join(d, nm))
    return files, dirs, n


def add_links(rng, root, files, dirs, outside, n):
    """symlinks: to a grammar file (inside/outside), to a directory with grammars, dangling"""
    links = {}     # rel path of link-as-grammar -> text
    for _ in range(rng.choice([0, 1, 2])):
        d = rng.choice(dirs)
        k = rng.random()
        if k < 0.35 and files:
            target = rng.choice(list(files))
            nm = "ln%d.lalrpop" % len(links)
            rel = os.path.join(d, nm)
            try:
                os.symlink(os.path.join(root, target), os.path.join(root, rel))
                links[rel] = files[target]
            except OSError:
                pass
        elif k < 0.55:
            n += 1
            text = TEMPLATE % n
            op = os.path.join(outside, "o%d.lalrpop" % n)
            open(op, "w").write(text)
            rel = os.path.join(d, "out%d.lalrpop" % n)
            os.symlink(op, os.path.join(root, rel))
            links[rel] = text
        elif k < 0.75:
            n += 1
            od = os.path.join(outside, "d%d" % n)
            os.makedirs(od, exist_ok=True)
            text = TEMPLATE % n
            open(os.path.join(od, "inner.lalrpop"), "w").write(text)
            rel = os.path.join(d, "lnk%d" % n)
            os.symlink(od, os.path.join(root, rel))
            links[os.path.join(rel, "inner.lalrpop")] = text
        else:
            rel = os.path.join(d, "dangling%d.lalrpop" % len(links))
            try:
                os.symlink(os.path.join(root, "nowhere", "x.lalrpop"), os.path.join(root, rel))
            except OSError:
                pass
    return links, n


def add_bad_names(rng, root, dirs):
    """files whose names must be rejected; returns list of rel paths (bytes for non-UTF-8)"""
    bad = []
    if rng.random() < 0.25:
        d = rng.choice(dirs)
        nm = rng.choice(["x y.lalrpop", "t\tab.lalrpop", " lead.lalrpop", "nl\n.lalrpop"])
        p = os.path.join(root, d, nm)
        open(p, "w").write(TEMPLATE % 999)
        bad.append(os.path.join(d, nm))
    if rng.random() < 0.1:
        d = rng.choice(dirs)
        p = os.path.join(os.fsencode(root), os.fsencode(d), b"\xff\xfe.lalrpop")
        with open(p, "w") as f:
            f.write(TEMPLATE % 998)
        bad.append(os.fsdecode(os.path.join(os.fsencode(d), b"\xff\xfe.lalrpop")))
    return bad


def expected_out(rel, out_dir_mode, out_root):
    """documented output path of grammar at `rel` (relative to in_dir)"""
    d, f = os.path.split(rel)
    stem = f[:-len(".lalrpop")]
    if out_dir_mode == "beside":
        return os.path.join(out_root, d, stem + ".rs")
    parts = [x for x in d.split(os.sep) if x]
    if parts and parts[0] == "src":
        parts = parts[1:]
    return os.path.join(out_root, *parts, stem + ".rs")


def snapshot(*roots):
    out = {}
    for r in roots:
        for dp, dn, fn in os.walk(os.fsencode(r), followlinks=False):
            for f in fn:
                p = os.path.join(dp, f)
                try:
                    if not os.path.islink(p):
                        out[os.fsdecode(p)] = os.stat(p).st_mtime_ns
                except OSError:
                    pass
    return out


_refs = {}


def reference(bin_, work, text):
    if text not in _refs:
        import tempfile
        d = tempfile.mkdtemp(dir=work, prefix="ref")
        p = os.path.join(d, "g.lalrpop")
        open(p, "w").write(text)
        core.run([bin_, "--force", p], timeout=60)
        _refs[text] = open(os.path.join(d, "g.rs"), "rb").read()
        shutil.rmtree(d, ignore_errors=True)
    return _refs[text]


def one(args):
    tid, seed, bin_, work = args
    rng = random.Random(seed)
    base = core.ensure_dir(os.path.join(work, "t%d" % tid), wipe=True)
    root = core.ensure_dir(os.path.join(base, "proj"))
    outside = core.ensure_dir(os.path.join(base, "outside"))
    outd = os.path.join(base, "out")
    files, dirs, n = make_tree(rng, root)
    links, n = add_links(rng, root, files, dirs, outside, n)
    bad = add_bad_names(rng, root, dirs)
    grammars = dict(files)
    grammars.update(links)
    mode = rng.choice(["dir_out", "dir_out", "process_in_out", "dir_env", "dir_noenv", "cargo", "in_source", "current_dir", "cli_beside", "cli_out", "file_out"])
    rerun = rng.random() < 0.5
    relative = rng.random() < 0.3
    env = {"OUT_DIR": None}
    req = {"force": rng.random() < 0.5, "rerun": rerun}
    viol = []
    expect_err = False
    in_root = root
    single = None
    if mode in ("cli_beside", "cli_out", "file_out"):
        if not grammars:
            shutil.rmtree(base, ignore_errors=True)
            return [], {"skipped_empty": 1}, None
        single = rng.choice(sorted(grammars))
    before = snapshot(base)
    res = None
    if mode == "dir_out":
        req.update({"op": "process_dir", "path": os.path.relpath(root, base) if relative else root, "out_dir": outd, "cwd": base})
        exp = {expected_out(r, "out", outd): t for r, t in grammars.items()}
    elif mode == "process_in_out":
        req.update({"op": "process", "in_dir": os.path.relpath(root, base) if relative else root, "out_dir": outd, "cwd": base})
        exp = {expected_out(r, "out", outd): t for r, t in grammars.items()}
    elif mode == "dir_env":
        req.update({"op": "process_dir", "path": root, "cwd": base})
        env = {"OUT_DIR": outd}
        exp = {expected_out(r, "out", outd): t for r, t in grammars.items()}
    elif mode == "dir_noenv":
        req.update({"op": "process_dir", "path": root, "cwd": base})
        exp = {}
        expect_err = True
    elif mode == "cargo":
        # in_dir = "src" relative to cwd, out_dir = $OUT_DIR
        os.makedirs(os.path.join(root, "src"), exist_ok=True)
        req.update({"op": "process", "cargo_conventions": True, "cwd": root})
        env = {"OUT_DIR": outd}
        sub = {r[len("src" + os.sep):]: t for r, t in grammars.items() if r.startswith("src" + os.sep)}
        exp = {expected_out(r, "out", outd): t for r, t in sub.items()}
        bad = [b for b in bad if b.startswith("src" + os.sep)]
    elif mode == "in_source":
        req.update({"op": "process", "in_source": True, "cwd": root})
        exp = {os.path.normpath(expected_out(r, "out", root)): t for r, t in grammars.items()}
    elif mode == "current_dir":
        req.update({"op": "process_current_dir", "out_dir": outd, "cwd": root})
        exp = {expected_out(r, "out", outd): t for r, t in grammars.items()}
    elif mode == "cli_beside":
        exp = {expected_out(single, "beside", root): grammars[single]}
    elif mode == "cli_out":
        exp = {os.path.join(outd, os.path.basename(single)[:-len(".lalrpop")] + ".rs"): grammars[single]}
    elif mode == "file_out":
        req.update({"op": "process_file", "path": os.path.join(root, single), "out_dir": outd, "cwd": base})
        exp = {os.path.join(outd, os.path.basename(single)[:-len(".lalrpop")] + ".rs"): grammars[single]}
    # outputs colliding on one path: "exactly one .rs each" cannot hold; unspecified -> skip
    n_expected = len(sub) if mode == "cargo" else (len(grammars) if mode not in ("cli_beside", "cli_out", "file_out", "dir_noenv") else len(exp))
    if len(exp) != n_expected:
        shutil.rmtree(base, ignore_errors=True)
        return [], {"skipped_colliding_outputs": 1}, None
    if any(os.path.exists(p) for p in exp):
        shutil.rmtree(base, ignore_errors=True)
        return [], {"skipped_output_would_overwrite_input": 1}, None
    if mode in ("cli_beside", "cli_out"):
        cmd = [bin_] + (["-o", outd] if mode == "cli_out" else []) + (["-f"] if req["force"] else []) + [os.path.join(root, single)]
        rc, so, se, to = core.run(cmd, timeout=120, cwd=base)
        res = {"status": "ok" if rc == 0 else ("panic" if "panicked" in se.decode(errors="replace") else "err"), "msg": se.decode(errors="replace")[-300:], "stdout": so.decode(errors="replace")}
        bad = []
    else:
        res = apidriver.call(req, env=env, timeout=240)
    after = snapshot(base)
    created = sorted(p for p in after if p not in before)
    created_rs = [p for p in created if p.endswith(".rs")]
    # outputs written through a symlinked directory physically live elsewhere: compare real paths
    exp = {os.path.realpath(p): t for p, t in exp.items()}
    created_rs = [os.path.realpath(p) for p in created_rs]
    desc = {"mode": mode, "request": req, "env": env, "tree": sorted(grammars), "bad_names": bad, "status": res["status"], "msg": res["msg"][:300], "created": created}
    if res["status"] in ("panic", "crash", "timeout"):
        viol.append(("panic_or_crash", desc))
    elif expect_err:
        if res["status"] != "err" or created:
            viol.append(("missing_out_dir_not_reported", desc))
    elif bad and mode not in ("cli_beside", "cli_out", "file_out"):
        # the call must fail; nothing for the rejected file; whatever exists must be right
        if res["status"] != "err":
            viol.append(("bad_file_name_not_rejected", desc))
        for p in created_rs:
            if p not in exp:
                viol.append(("misplaced_or_foreign_output", dict(desc, path=p)))
            elif open(p, "rb").read() != reference(bin_, work, exp[p]):
                viol.append(("wrong_content", dict(desc, path=p)))
    else:
        if res["status"] != "ok":
            viol.append(("unexpected_error", desc))
        else:
            if sorted(created_rs) != sorted(exp):
                viol.append(("wrong_output_set", dict(desc, expected=sorted(exp))))
            else:
                for p, t in exp.items():
                    if open(p, "rb").read() != reference(bin_, work, t):
                        viol.append(("wrong_content", dict(desc, path=p)))
            extra = [p for p in created if not p.endswith(".rs")]
            if extra:
                viol.append(("unexpected_files_created", dict(desc, extra=extra)))
            if mode not in ("cli_beside", "cli_out"):
                lines = [l[len("cargo:rerun-if-changed="):] for l in res["stdout"].splitlines() if l.startswith("cargo:rerun-if-changed=")]
                if rerun:
                    if mode == "file_out":
                        want = [os.path.join(root, single)]
                    elif mode == "cargo":
                        want = [os.path.join("src", r) for r in sub]
                    elif mode == "in_source":
                        want = [os.path.join(".", r) for r in grammars]
                    else:
                        rootp = req.get("path") or req.get("in_dir") or root
                        if mode == "current_dir":
                            rootp = root
                        want = [os.path.join(rootp, r) for r in grammars]
                    if sorted(os.path.normpath(x) for x in lines) != sorted(os.path.normpath(x) for x in want):
                        viol.append(("rerun_directives_differ", dict(desc, printed=lines, expected=want)))
                elif lines:
                    viol.append(("rerun_directives_printed_when_disabled", dict(desc, printed=lines)))
    stats = {"mode_" + mode: 1, "grammars": len(grammars), "with_bad_names": 1 if bad else 0, "with_links": 1 if links else 0}
    shutil.rmtree(base, ignore_errors=True)
    return viol, stats, desc


def run(tier, seed):
    chk = core.Check("C23", "exploration", tier, seed)
    bin_ = core.build_lalrpop()
    apidriver.build()
    base = core.seed_for("C23", seed) % (2 ** 31)
    n = {"quick": 2500, "thorough": 12000}[tier]
    res = core.tmap(one, [(i, base + i, bin_, chk.work) for i in range(n)])
    for (viol, stats, desc), i in zip(res, range(n)):
        chk.evaluations += 1
        for k, v in stats.items():
            chk.count(k, v)
        for kind, d in viol:
            chk.violation({"kind": kind, "sig": kind + "/" + d["mode"], "summary": "%s mode=%s status=%s %s tree=%s created=%s" % (kind, d["mode"], d["status"], d["msg"][:120], d["tree"], d["created"]), "detail": d, "seed": base + i})
        if desc and not viol and stats.get("grammars", 0) >= 1:
            chk.nontriv(("t", base + i))
        if desc and len(chk.samples) < 4 and stats.get("grammars", 0) >= 2:
            chk.sample({"mode": desc["mode"], "tree": desc["tree"], "created": desc["created"]})
    chk.rule = "random tree x configuration; expected file set from the path calculator (beside the input; out_dir/(relative dir minus a leading src)/stem.rs; directly in out_dir for a single file), rejected names, ignored non-grammar files, symlinked files/dirs followed, dangling links skipped, rerun directives = processed files; non-trivial = tree with at least one grammar and a fully matching outcome; distinct by tree seed"
    chk.assumptions = ["trees where two grammars map to the same output path, or link cycles, are unspecified by the statement and skipped"]
    return chk.finish(min_nontrivial=100, min_evaluations=200)


def replay(path, seed):
    print("replay: the witness holds the tree seed and the request; re-run ./check C23")
    return 0
