from ._basic import run_basic


def run(tier, seed):
    return run_basic("C04", tier, seed)


def replay(path, seed):
    from ..replay import replay_pipeline
    return replay_pipeline("C04", path)
