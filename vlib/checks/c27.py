"""C27: generated parsers are re-entrant and safe to share across threads.
One subject program (rust/c27): shared `Arc<Parser>` values (built-in lexer + extern tokens),
16 threads x 120 rounds over a pool of valid / invalid / long / multi-byte inputs with a start
barrier and yields, each result compared with a sequential baseline from fresh parsers; compile
time assertion `Parser: Send + Sync`.  Three executions of the same program: native (result
equality, several runs -> several interleavings), ThreadSanitizer (-Zsanitizer=thread
-Zbuild-std, halt_on_error: any report is a violation), Miri (reduced workload, many seeds:
data races and UB inside the lazy-DFA cache handling)."""
import json
import os
import re
import shutil

from .. import core


def prepare(chk):
    src = os.path.join(core.VERIF, "rust", "c27")
    dst = core.ensure_dir(os.path.join(core.TARGET, "c27-src-" + core.repo_tag()))
    core.ensure_dir(os.path.join(dst, "src"))
    toml = open(os.path.join(src, "Cargo.toml")).read().replace("@REPO@", core.REPO)
    p = os.path.join(dst, "Cargo.toml")
    if not os.path.exists(p) or open(p).read() != toml:
        open(p, "w").write(toml)
    shutil.copy(os.path.join(core.REPO, "Cargo.lock"), os.path.join(dst, "Cargo.lock"))
    shutil.copy(os.path.join(src, "src", "main.rs"), os.path.join(dst, "src", "main.rs"))
    bin_ = core.build_lalrpop()
    for g in ("lex", "ext"):
        gp = os.path.join(dst, "src", g + ".lalrpop")
        shutil.copy(os.path.join(src, g + ".lalrpop"), gp)
        rc, out, err, to = core.run([bin_, "--force", gp], timeout=120)
        if rc != 0:
            raise core.HarnessError("cannot generate %s: %s" % (g, err.decode(errors="replace")[-500:]))
    return dst


def parse_result(out):
    m = re.search(r"C27RESULT (\{.*\})", out)
    return json.loads(m.group(1)) if m else None


def run(tier, seed):
    chk = core.Check("C27", "exploration", tier, seed)
    dst = prepare(chk)
    orders = set()
    # native
    td = os.path.join(core.TARGET, "c27-native-" + core.repo_tag())
    rc, out, err, to = core.cargo(["build", "--offline", "--quiet"], dst, td, timeout=1800)
    if rc != 0:
        if "Send" in err or "Sync" in err:
            chk.violation({"kind": "parser_not_send_sync", "sig": "send_sync", "summary": err[-600:]})
        else:
            raise core.HarnessError("c27 native build failed:\n" + err[-2000:])
    else:
        nruns = {"quick": 6, "thorough": 60}[tier]
        for i in range(nruns):
            rc, out, err, to = core.run([os.path.join(td, "debug", "c27")], timeout=600, env={"C27_THREADS": str([16, 8, 32][i % 3]), "C27_ROUNDS": "120"})
            o = out.decode(errors="replace")
            r = parse_result(o)
            if to:
                chk.inconclusive += 1
                continue
            if r is None or rc != 0:
                chk.violation({"kind": "concurrent_result_differs" if r else "crash", "sig": "native", "summary": (o + err.decode(errors="replace"))[-800:]})
                continue
            chk.evaluations += r["parses"]
            orders.add(r["completion_order"])
            chk.count("native_runs")
            chk.count("native_parses", r["parses"])
            chk.nontriv(("native", i, r["completion_order"]))
    # ThreadSanitizer
    td = os.path.join(core.TARGET, "c27-tsan-" + core.repo_tag())
    env = {"RUSTFLAGS": "-Zsanitizer=thread", "CARGO_INCREMENTAL": "0"}
    rc, out, err, to = core.cargo(["build", "--offline", "--quiet", "-Zbuild-std", "--target", "x86_64-unknown-linux-gnu"], dst, td, timeout=3000, env=env, toolchain="nightly")
    if rc != 0:
        chk.inconclusive += 1
        chk.extra["tsan"] = "build failed (inconclusive): " + err[-400:]
    else:
        b = os.path.join(td, "x86_64-unknown-linux-gnu", "debug", "c27")
        nruns = {"quick": 2, "thorough": 12}[tier]
        reports = 0
        for i in range(nruns):
            rc, out, err, to = core.run([b], timeout=900, env={"TSAN_OPTIONS": "halt_on_error=1 exitcode=66", "C27_THREADS": "8", "C27_ROUNDS": "20"})
            e = err.decode(errors="replace")
            o = out.decode(errors="replace")
            if to:
                chk.inconclusive += 1
                continue
            if "ThreadSanitizer" in e or rc == 66:
                reports += 1
                chk.violation({"kind": "data_race_report", "sig": "tsan", "summary": e[-1500:]})
                continue
            r = parse_result(o)
            if r is None or rc != 0:
                chk.violation({"kind": "concurrent_result_differs_under_tsan", "sig": "tsan_result", "summary": (o + e)[-800:]})
                continue
            chk.evaluations += r["parses"]
            orders.add(r["completion_order"])
            chk.count("tsan_runs")
            chk.count("tsan_parses", r["parses"])
            chk.nontriv(("tsan", i))
        chk.extra["tsan_reports"] = reports
    # Miri
    nseeds = {"quick": 2, "thorough": 16}[tier]
    td = os.path.join(core.TARGET, "c27-miri-" + core.repo_tag())
    env = {"MIRIFLAGS": "-Zmiri-many-seeds=0..%d -Zmiri-disable-isolation" % nseeds}
    rc, out, err, to = core.cargo(["miri", "run", "--offline", "--quiet"], dst, td, timeout=3000, env=env, toolchain="nightly")
    if to:
        chk.inconclusive += 1
        chk.extra["miri"] = "timed out (inconclusive)"
    elif rc != 0:
        if "Undefined Behavior" in err or "data race" in err.lower():
            chk.violation({"kind": "miri_undefined_behaviour", "sig": "miri", "summary": err[-2000:]})
        elif "C27MISMATCH" in out:
            chk.violation({"kind": "concurrent_result_differs_under_miri", "sig": "miri_result", "summary": out[-800:]})
        else:
            chk.inconclusive += 1
            chk.extra["miri"] = "did not run (inconclusive): " + err[-400:]
    else:
        n = len(re.findall(r"C27RESULT", out))
        chk.count("miri_seeds_run", max(n, 1))
        for m in re.finditer(r"C27RESULT (\{.*\})", out):
            r = json.loads(m.group(1))
            chk.evaluations += r["parses"]
            chk.nontriv(("miri", len(chk.nontrivial)))
    chk.extra["distinct_completion_orders"] = len(orders)
    chk.sample({"threads": 16, "rounds": 120, "inputs": "15 lexer texts (valid, invalid, long, multi-byte) + 11 token sequences (incl. a failing =>? action)", "completion_orders": sorted(orders)[:4]})
    chk.rule = "execution = one parse on a parser value shared by all threads; oracle = result of a fresh parser on the same input alone; non-trivial = a whole run (native / TSan / Miri seed) whose every parse matched; sanitizer reports are violations"
    chk.assumptions = ["TSan and Miri only see the interleavings these runs produced", "helgrind/DRD are not used (futex noise on Rust targets)"]
    return chk.finish(min_nontrivial=4, min_evaluations=1000)


def replay(path, seed):
    return run("quick", seed)
