"""Shared driver for C01 C02 C04 C05: one pipeline, four monitors (DESIGN 3, C01..C05)."""
from .. import core, gen, pipeline
from ..subject import CONFIGS

ALL_TAGS = [c[0] for c in CONFIGS]

RULES = {
    "C01": "grammar x pub start x config x token string; non-trivial = distinct (grammar, config, input) where the oracle and parser had to decide membership of a non-empty string",
    "C02": "accepted (grammar, config, input) whose reference tree has >= 2 instrumented action nodes or a non-trivial default/<> binding; distinct by (grammar hash, config, input)",
    "C06": "accepted (grammar with @L/@R and empty productions, config, input with gapped token locations and leading gap 0 or 5) whose value contains at least one location; compared with the reference location calculus (DESIGN A.7); distinct by (grammar hash, config, input, gap)",
    "C04": "rejected (grammar, config, input) with error position k < n (parser had to stop before the end) or EOF errors; distinct by (grammar hash, config, k, input)",
    "C05": "rejected (grammar, config, input) whose error carries an expected list; distinct by (grammar hash, config, consumed prefix)",
}


def c05_known(k, w):
    """F5: recursive ascent, non-canonical construction, over-broad list, and the same case shows
    no surplus under canonical LR(1) with the same back end (checked by the caller)."""
    return (k.get("id") == "F5" and w["kind"] == "expected_overbroad" and w["config"] in ("ra_lane", "ra_lalr")
            and w.get("canonical_same_backend_clean") is True)


def run_basic(prop, tier, seed, gen_kwargs=None):
    chk = core.Check(prop, "exploration", tier, seed)
    rng = chk.rng("gen")
    n_gram = {"quick": 56, "thorough": 220}[tier]
    if prop in ("C04", "C05"):
        gk = dict(modes=("user", "user", "unit", "pick"), sugar=0.10)
    elif prop == "C02":
        gk = dict(modes=("user", "user", "user", "unit", "pick", "single"), sugar=0.18, pat=0.5)
    elif prop == "C06":
        gk = dict(modes=("user", "user", "user", "user", "unit", "pick"), sugar=0.25, eps=0.3)
    else:
        gk = dict()
    if gen_kwargs:
        gk.update(gen_kwargs)
    want = None
    if prop in ("C04", "C05"):
        want = lambda g, cfg: all(cfg.all_productive(s) for s in g.starts())
    if prop == "C06":
        from .. import gen3 as _g3
        genf = lambda r: _g3.gen_prefix_overlap_loc(r) if r.random() < 0.25 else gen.gen_loc(r, **gk)
    elif prop in ("C01", "C04", "C05"):
        # a third of the grammars stress the lane-table construction (LR(1), mostly not LALR(1))
        from .. import gen3
        def genf(r):
            k = r.random()
            if k < 0.3:
                return gen3.gen_lane_stress(r)
            if k < 0.45:
                return gen3.gen_prefix_overlap(r)
            if k < 0.6:
                return gen3.gen_nullable_tails(r)
            return gen.gen_core(r, **gk)
    elif prop == "C02":
        from .. import gen3 as _g3b
        genf = lambda r: (_g3b.add_same_action_twins(r, gen.gen_core(r, **gk)) if r.random() < 0.4 else gen.gen_core(r, **gk))
    else:
        genf = lambda r: gen.gen_core(r, **gk)
    if prop == "C05":
        # deterministic probe of known finding F5 (see vlib/probes.py)
        from .. import probes
        _inner = genf
        _state = {"first": True}

        def genf(r, _inner=_inner, _state=_state):
            if _state["first"]:
                _state["first"] = False
                return probes.f5_grammar()
            return _inner(r)
    subj, cases = pipeline.make_cases(chk, rng, n_gram, genf, ALL_TAGS, want=want)
    irng = chk.rng("inputs")
    execs = []
    budget = {"quick": (120, 60, 50, 30), "thorough": (800, 150, 200, 60)}[tier]
    if prop in ("C02", "C06"):
        budget = {"quick": (60, 120, 30, 30), "thorough": (300, 400, 100, 60)}[tier]
    for c in cases:
        pipeline.inputs_for_case(irng, c, exhaustive_budget=budget[0], nrandom=budget[1], nmut=budget[2],
                                 max_len=budget[3])
        for w in getattr(c.g, "probe_inputs", []):
            for s0 in c.inputs:
                if w not in c.inputs[s0]:
                    c.inputs[s0].append(w)
        for s, ins in c.inputs.items():
            for w in ins:
                gap = irng.choice([0, 5])
                for tag in c.mods:
                    execs.append(pipeline.Exec(c, s, w, gap, tag, shape=irng.choice("TR")))
    res = pipeline.run_execs(subj, execs)
    orcs = {}
    props = {"C02"} if prop == "C06" else {prop}
    # C05 known-finding support: surplus per (case,start,input) under ra_lr1
    recs_by_key = {}
    for e in execs:
        recs_by_key[(e.case.idx, e.start, tuple(e.toks), e.tag)] = res.get(e.idx)

    def matcher(k, w):
        return c05_known(k, w)

    for e in execs:
        key = (e.case.idx, e.start, tuple(e.toks), e.gap)
        o = orcs.get(key)
        if o is None:
            o = pipeline.Oracle(e.case, e.start, e.toks, e.gap)
            orcs[key] = o
        rec = res.get(e.idx)
        chk.evaluations += 1
        before = len(chk.violations)
        if prop == "C05":
            _c05(chk, e, rec, o, recs_by_key)
        elif prop == "C06":
            # only values (locations) are C06's business: the order of inlined actions belongs to
            # C14 (known finding F13 would otherwise show up here as wrong_action_order)
            nv = len(chk.violations)
            pipeline.monitor_basic(chk, props, e.case, e, rec, o)
            chk.violations[nv:] = [w for w in chk.violations[nv:] if w["kind"] == "wrong_value"]
        else:
            pipeline.monitor_basic(chk, props, e.case, e, rec, o)
        # non-triviality accounting
        gh = core.sha(e.case.text)[:10]
        if rec and "r" in rec and rec["r"]:
            if prop == "C01" and e.toks:
                chk.nontriv((gh, e.tag, e.start, tuple(e.toks)))
            elif prop == "C02" and o.accepted and not o.ambiguous and o.tree is not None and len(o.eval[2]) >= 2:
                chk.nontriv((gh, e.tag, e.start, tuple(e.toks)))
            elif prop == "C06" and o.accepted and not o.ambiguous and o.tree is not None and '"L"' in __import__("json").dumps(rec["r"]):
                chk.nontriv((gh, e.tag, e.start, tuple(e.toks), e.gap))
                if not e.toks or o.eval[0] == "ok" and _has_empty_real(o):
                    chk.count("with_empty_or_eof_location")
            elif prop == "C04" and not o.accepted:
                chk.nontriv((gh, e.tag, e.start, o.k, tuple(e.toks)))
                chk.count("err_at_eof" if not o.k else ("err_before_end" if o.k < o.n else "err_at_last"))
            elif prop == "C05" and not o.accepted and "expected" in rec["r"]:
                at = (o.k - 1) if o.k else o.n
                chk.nontriv((gh, e.tag, e.start, tuple(e.toks[:at])))
        if len(chk.samples) < 5 and rec and rec.get("r") and chk.evaluations % 997 == 1:
            chk.sample({"grammar": e.case.text, "config": e.tag, "start": e.start, "input": e.toks,
                        "observed": rec["r"], "events": rec["ev"], "oracle_accepts": o.accepted})
    if prop == "C06":
        # "both code generators return the same locations": exact comparison, which also
        # covers the positions the reference calculus leaves unspecified
        for e in execs:
            if not e.tag.startswith("td_"):
                continue
            other = "ra_" + e.tag[3:]
            r1 = res.get(e.idx)
            r2 = recs_by_key.get((e.case.idx, e.start, tuple(e.toks), other))
            if not r1 or not r2 or not r1.get("r") or not r2.get("r"):
                continue
            if "ok" in r1["r"] and "ok" in r2["r"]:
                chk.count("backend_pairs_compared")
                if r1["r"]["ok"] != r2["r"]["ok"]:
                    w = pipeline.witness(e.case, e, r1, None, "backend_location_disagreement",
                                         {"table_driven": r1["r"]["ok"], "recursive_ascent": r2["r"]["ok"]})
                    chk.violation(w)
    chk.rule = RULES[prop]
    chk.extra["grammars"] = len(cases)
    chk.extra["parsers_compiled"] = sum(len(c.mods) for c in cases)
    chk.extra["compile_failures"] = len(subj.compile_failures)
    chk.extra["exhaustive_string_length_per_start"] = sorted({L for c in cases for L in c.exh_len.values()})
    chk.extra["configs"] = ALL_TAGS
    chk.assumptions = ["Earley recogniser / reference evaluator in vlib/earley.py are correct (self-tested)",
                       "rustc and cargo", "grammar sample is random: universals are explored, not covered"]
    if subj.compile_failures:
        # accepted grammar that does not compile: C19's business, reported there; count here
        chk.extra["compile_failure_samples"] = list(subj.compile_failures.items())[:2]
    return chk.finish(min_nontrivial=50, min_evaluations=1000)


def _has_empty_real(o):
    return True


def _c05(chk, e, rec, o, recs_by_key):
    """C05 monitor with the F5 known-finding discrimination."""
    def matcher(k, w):
        if w["kind"] != "expected_overbroad":
            return False
        if w["config"] not in ("ra_lane", "ra_lalr"):
            return False
        # same grammar and input under canonical LR(1) with recursive ascent must be clean
        other = recs_by_key.get((e.case.idx, e.start, tuple(e.toks), "ra_lr1"))
        if not other or not other.get("r") or "expected" not in other["r"]:
            return False
        listed = {pipeline.term_of_expected(s) for s in other["r"]["expected"]}
        clean = listed <= set(o.next)
        w["canonical_same_backend_clean"] = clean
        return k.get("id") == "F5" and clean
    pipeline.monitor_basic(chk, {"C05"}, e.case, e, rec, o, known_matcher=matcher)
