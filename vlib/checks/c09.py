"""C09: the built-in lexer tokenizes by longest match with documented precedence."""
from .. import core, lexcheck, lexgen

TAGS = ["td_lane", "ra_lane"]


def run(tier, seed):
    chk = core.Check("C09", "exploration", tier, seed)
    rng = chk.rng("gen")
    n = {"quick": 160, "thorough": 1500}[tier]
    subj, cases, rejected = lexcheck.make_lex_cases(chk, rng, n, lambda r: lexgen.gen_spec(r, match_p=0.7), tags=TAGS)
    trng = chk.rng("texts")
    ntext = {"quick": 60, "thorough": 200}[tier]
    meta, res = lexcheck.run_lex(chk, subj, cases, lambda c: lexgen.gen_texts(trng, c.spec, n=ntext), TAGS)
    lexcheck.monitor_lex(chk, "C09", meta, res)
    for c in cases[:3]:
        chk.sample({"grammar": c.text, "texts": c.texts[:5]})
    chk.rule = "accepted terminal set (literals/regexes, 0-3 match rungs, renamings, skip rules, `_`) x input text (concatenated samples of the patterns with whitespace and noise, non-ASCII included) x {table-driven, recursive ascent}; non-trivial = at least one token or an InvalidToken position was compared; distinct by (lexer, config, text)"
    chk.extra["lexers"] = len(cases)
    chk.extra["with_match_block"] = sum(1 for c in cases if c.spec.nrungs)
    chk.extra["with_skip_rule"] = sum(1 for c in cases if c.spec.has_skip())
    chk.assumptions = ["`regex` crate full-match semantics (engine-independent: every prefix is tested with ^(?:re)$)", "rank function written from the book (DESIGN A.6)"]
    return chk.finish(min_nontrivial=200, min_evaluations=1000)


def replay(path, seed):
    from ..replay_lex import replay as r
    return r("C09", path)
