"""C17: action and lexer errors are returned verbatim and stop the parse.

Trace monitor over the recorded event log (pulls `p`, injected stream errors `e`, action events
`a`), independent of any derivation: the FIRST failing event in the log (a fallible action the
workload told to fail, or the injected `Err` item) must be the LAST event of the log, and the
result must be exactly that error.  For sentences, the reference evaluator additionally says
which action must fail first (so a skipped action is noticed too)."""
import json

from .. import core, gen, pipeline
from ..gmodel import desugar as gmodel_desugar
from ..subject import CONFIGS

ALL_TAGS = [c[0] for c in CONFIGS]


def first_failure(evs, fallible, fails):
    """index in evs of the first failing event, and the error it must surface as"""
    occ = {}
    nact = 0
    for i, (k, n) in enumerate(evs):
        if k == "e":
            return i, {"err": "User", "e": ["P", [["L", 9999], ["L", n]]]}
        if k == "a":
            seq = nact
            nact += 1
            if n in fallible:
                o = occ.get(n, 0)
                occ[n] = o + 1
                for (fp, fk) in fails or ():
                    if fp == n and (fk < 0 or fk == o):
                        return i, {"err": "User", "e": ["P", [["L", n], ["L", seq]]]}
    return None, None


def monitor(chk, props, case, e, rec, orc):
    if rec is None or rec.get("timeout"):
        chk.inconclusive += 1
        return
    if "crash" in rec or rec.get("panic"):
        chk.count("panic_or_crash_seen_(C08)")
        return
    r = rec["r"]
    evs = pipeline.parse_events(rec["ev"])
    fallible = {a.pid for nt in case.g.nts for a in nt.alts if a.fallible}
    idx, want = first_failure(evs, fallible, e.fails)

    def viol(kind, detail):
        chk.violation(pipeline.witness(case, e, rec, orc, kind, detail))

    if idx is not None:
        chk.count("failure_observed")
        if r != want:
            viol("error_not_returned_verbatim", {"first_failing_event": evs[idx], "must_return": want, "got": r})
        elif idx != len(evs) - 1:
            later = evs[idx + 1:]
            kind = "token_read_after_error" if any(k in "pne" for k, _ in later) else "action_ran_after_error"
            viol(kind, {"first_failing_event": evs[idx], "later_events": later})
        else:
            chk.count("surfaced_" + ("stream" if evs[idx][0] == "e" else "action"))
            chk.nontriv((core.sha(case.text)[:10], e.tag, e.start, tuple(e.toks), e.err_at, str(e.fails)))
    else:
        # no failure happened in this execution: result must not be a User error
        if r.get("err") == "User":
            viol("spurious_user_error", {"got": r})
    # sentences: the reference evaluator knows which action fails first
    # (grammars with user #[inline] nonterminals are left to C14, which owns the order of inlined actions)
    if orc is not None and orc.accepted and not orc.ambiguous and orc.tree is not None and e.err_at is None \
            and not any(nt.inline for nt in case.g.nts):
        st, val, exp_events = orc.eval
        if st == "fail":
            want2 = {"err": "User", "e": ["P", [["L", val[0]], ["L", val[1]]]]}
            if r != want2:
                viol("wrong_first_failure", {"reference_first_failure": want2, "got": r})
            chk.count("reference_failures_checked")
        elif "ok" not in r:
            viol("sentence_rejected", {"got": r})


def run(tier, seed):
    chk = core.Check("C17", "exploration", tier, seed)
    rng = chk.rng("gen")
    n_gram = {"quick": 50, "thorough": 300}[tier]
    gk = dict(fallible=0.5, sugar=0.15)

    def genf(r):
        g = gen.gen_loc(r, **gk) if r.random() < 0.3 else gen.gen_core(r, **gk)
        if r.random() < 0.5:
            gen.add_user_inline(r, g)
        return g
    subj, cases = pipeline.make_cases(chk, rng, n_gram, genf, ALL_TAGS,
                                      want=lambda g, cfg: any(a.fallible for nt in g.nts for a in nt.alts))
    irng = chk.rng("inputs")
    execs = []
    budget = {"quick": (40, 40, 30, 24), "thorough": (200, 150, 100, 50)}[tier]
    for c in cases:
        pipeline.inputs_for_case(irng, c, exhaustive_budget=budget[0], nrandom=budget[1], nmut=budget[2], max_len=budget[3], foreign=False)
        fall = sorted({a.pid for nt in c.g.nts for a in nt.alts if a.fallible})
        for s, ins in c.inputs.items():
            for w in ins:
                variants = []
                # stream errors at a few positions (always 0 and n)
                pos = {0, len(w)} | {irng.randint(0, len(w)) for _ in range(2)}
                for j in sorted(pos):
                    variants.append(("R", j, None))
                for _ in range(2):
                    f = [(irng.choice(fall), irng.choice([-1, -1, 0, 1, 2]))]
                    if irng.random() < 0.3 and len(fall) > 1:
                        f.append((irng.choice(fall), -1))
                    variants.append((irng.choice("TR"), None, f))
                    if irng.random() < 0.5:
                        variants.append(("R", irng.randint(0, len(w)), f))
                gap = irng.choice([0, 5])
                tags = list(c.mods)
                for (shape, j, f) in variants:
                    for tag in irng.sample(tags, min(3, len(tags))):
                        execs.append(pipeline.Exec(c, s, w, gap, tag, shape=shape, err_at=j, fails=f))
    res = pipeline.run_execs(subj, execs)
    # second workload: grammars WITH error recovery ("error recovery does not intercept it"):
    # corrupted inputs, a stream error injected at every position (also while recovery is
    # dropping tokens)
    from .. import gen2
    rrng = chk.rng("recovery")
    nrec = {"quick": 24, "thorough": 200}[tier]

    def genrec(r):
        # recovery grammars whose ordinary alternatives may have fallible (`=>?`) actions: an action
        # can then fail while it runs as a reduction pending under the `!` lookahead
        g = gen2.gen_recovery(r)
        if r.random() < 0.6:
            # an error alternative that continues an existing alternative right after one of its
            # NONTERMINALS:  X = a N b  ~>  X = a N @L ! @R   (N is then reduced under `!`)
            cands = [(nt, alt, k) for nt in g.nts for alt in nt.alts
                     if not any(it.sym.k in ("err", "L", "R") for it in alt.items)
                     for k, it in enumerate(alt.items) if it.sym.k == "n"]
            if cands:
                import copy
                from ..gmodel import Alt, Item, Sym
                nt, alt, k = r.choice(cands)
                items = [Item(copy.deepcopy(it.sym)) for it in alt.items[:k + 1]] + [Item(Sym("L")), Item(Sym("err")), Item(Sym("R"))]
                a2 = Alt(items)
                gen2.full_named(a2)
                nt.alts.append(a2)
                gen._assign_pids(g)
        if r.random() < 0.8:
            for nt in g.nts:
                for alt in nt.alts:
                    if alt.action == "named" and not any(it.sym.k == "err" for it in alt.items) and r.random() < 0.5:
                        alt.fallible = True
        return g
    subj2, rcases = pipeline.make_cases(chk, rrng, nrec, genrec, ["td_lane", "td_lalr"], subject_name="subject_rec")
    execs2 = []
    for c in rcases:
        c.cfg_noerr = gmodel_desugar(gen2.strip_errors(c.g))
        alphabet = list(c.g.terms)
        for s in c.g.starts():
            sents = [w for w in (gen.random_sentence(irng, c.cfg_noerr, s, depth=irng.randint(2, 8), max_len=20) for _ in range(12)) if w is not None]
            ins = []
            for _ in range({"quick": 30, "thorough": 120}[tier]):
                base = irng.choice(sents) if sents else [irng.choice(alphabet) for _ in range(5)]
                ins.append(gen.mutate(irng, base, alphabet + ["?"], nmut=irng.choice([1, 2, 2, 3, 4])))
            rfall = sorted({a.pid for nt in c.g.nts for a in nt.alts if a.fallible})
            for w in ins:
                gap = irng.choice([0, 5])
                for j in range(len(w) + 1):
                    tag = irng.choice(list(c.mods)) if c.mods else None
                    if tag:
                        execs2.append(pipeline.Exec(c, s, w, gap, tag, shape="R", err_at=j))
                if rfall and c.mods:
                    # actions failing on corrupted input, with and without a stream error
                    plans = [[(p_, -1)] for p_ in (rfall if len(rfall) <= 8 else irng.sample(rfall, 8))]
                    plans += [[(irng.choice(rfall), irng.choice([0, 1, 2]))] for _ in range(3)]
                    for f in plans:
                        if irng.random() < 0.3 and len(rfall) > 1:
                            f.append((irng.choice(rfall), -1))
                        tag = irng.choice(list(c.mods))
                        execs2.append(pipeline.Exec(c, s, w, gap, tag, shape=irng.choice("TR"), err_at=None, fails=f))
                        if irng.random() < 0.4:
                            execs2.append(pipeline.Exec(c, s, w, gap, tag, shape="R", err_at=irng.randint(0, len(w)), fails=f))
    res2 = pipeline.run_execs(subj2, execs2)
    for e in execs2:
        chk.evaluations += 1
        rec = res2.get(e.idx)
        monitor(chk, {"C17"}, e.case, e, rec, None)
        if rec and rec.get("r") and "ok" not in rec["r"] and rec["r"].get("err") == "User":
            evs = pipeline.parse_events(rec["ev"])
            if any(k == "e" for k, _ in evs):
                chk.count("recovery_grammar_stream_error_surfaced")
            elif e.fails:
                chk.count("recovery_grammar_action_error_surfaced")
    chk.extra["recovery_grammars"] = len(rcases)
    orcs = {}
    for e in execs:
        key = (e.case.idx, e.start, tuple(e.toks), e.gap, str(e.fails))
        o = orcs.get(key)
        if o is None:
            o = pipeline.Oracle(e.case, e.start, e.toks, e.gap, fails=e.fails)
            orcs[key] = o
        chk.evaluations += 1
        monitor(chk, {"C17"}, e.case, e, res.get(e.idx), o)
        if chk.evaluations % 2999 == 1:
            rec = res.get(e.idx) or {}
            chk.sample({"grammar": e.case.text, "config": e.tag, "input": e.toks, "stream_error_at": e.err_at,
                        "failing_actions": e.fails, "result": rec.get("r"), "events": rec.get("ev")})
    chk.rule = "execution with an injected stream Err at position j (0..n) and/or fallible actions told to fail at their k-th invocation; non-trivial = a failure actually occurred and surfaced; distinct by (grammar hash, config, input, injection)"
    chk.extra["grammars"] = len(cases)
    chk.extra["parsers_compiled"] = sum(len(c.mods) for c in cases)
    chk.assumptions = ["event log of the subject crate (thread-local, appended by the token iterator and as the first statement of every action)"]
    return chk.finish(min_nontrivial=50, min_evaluations=1000)


def replay(path, seed):
    from ..replay import replay_pipeline
    return replay_pipeline("C17", path, monitor=monitor)
