"""C03: a grammar is accepted exactly when it is deterministic for the chosen algorithm.
Outcome of the real CLI (exit 0 / conflict diagnostic) vs a textbook canonical-LR(1) / LALR(1)
construction (vlib/lr1.py) on the reference-desugared, reference-inlined grammar."""
import itertools
import os
import random
import shutil
import tempfile

from .. import core, gen, gmodel, lr1, subject
from ..gmodel import Alt, Grammar, Item, N, NT, T

CONFIGS = ["td_lane", "td_lr1", "td_lalr"]


def mk_grammar(rules, terms, pubs, inline=()):
    """rules: dict nt -> list of alts; alt = list of gmodel.Sym"""
    nts = []
    for n, alts in rules.items():
        nt = NT(n, [Alt([Item(s) for s in alt]) for alt in alts], ty="()", unit=True, pub=(n in pubs), inline=(n in inline))
        nts.append(nt)
    return Grammar(nts, list(terms))


def inline_expand(cfg):
    """reference inliner on a plain CFG: substitute every alternative of every inlined
    nonterminal at each occurrence; returns rules dict nt -> list of rhs"""
    inl = set(cfg.inline_nts)
    rules = {}
    for p in cfg.prods:
        rules.setdefault(p.lhs, []).append(list(p.rhs))
    guard = 0
    while True:
        guard += 1
        if guard > 50:
            raise ValueError("inline expansion does not terminate")
        changed = False
        for x in list(rules):
            new = []
            for rhs in rules[x]:
                pos = next((i for i, s in enumerate(rhs) if s in inl), None)
                if pos is None:
                    new.append(rhs)
                    continue
                changed = True
                for sub in rules.get(rhs[pos], []):
                    new.append(rhs[:pos] + list(sub) + rhs[pos + 1:])
                if len(new) > 3000:
                    raise ValueError("inline expansion too large")
            rules[x] = new
        if not changed:
            break
    for x in inl:
        rules.pop(x, None)
    return rules


def oracle(g):
    cfg = gmodel.desugar(g)
    rules = inline_expand(cfg)
    terms = set(cfg.terms)
    reach = set()
    for s0 in g.starts():
        reach |= cfg.reachable(s0)
    res = {"lr1": False, "lalr": False, "states": 0, "detail": {},
           "reachable_unproductive": sorted(n for n in reach if n in cfg.nts and n not in cfg.productive)}
    for s in g.starts():
        a = lr1.analyse(rules, terms, s, max_states=1500)
        res["lr1"] |= a["lr1"]
        res["lalr"] |= a["lalr"]
        res["states"] += a["nstates"]
        res["detail"][s] = {"lr1": a["lr1_conflicts"], "lalr": a["lalr_conflicts"]}
    return res


def text_of(g):
    s = gmodel.CONFIG_MARK + "\ngrammar;\n\nextern {\n    type Location = usize;\n    enum Tok {\n"
    for i, t in enumerate(g.terms):
        s += "        %s => Tok::K%d,\n" % (gmodel.term_text(t), i)
    s += "    }\n}\n\n"
    for nt in g.nts:
        s += gmodel.nt_text(nt) + "\n"
    return s


def classify(res):
    st = subject.classify_cli(res)
    if st == "ok":
        return "accept"
    if st == "error":
        txt = res["stdout"] + res["stderr"]
        if "onflict" in txt or "mbigu" in txt or "Multiple productions" in txt:
            return "conflict"
        return "other_error"
    return st


def raw_random(rng):
    nt_n = rng.randint(1, 6)
    names = gen.NTNAMES[:nt_n]
    terms = gen.TERMS[:rng.randint(1, 5)]
    rules = {}
    for n in names:
        alts = []
        for _ in range(rng.randint(1, 3)):
            ln = rng.choice([0, 1, 1, 2, 2, 3, 4])
            alt = []
            for _ in range(ln):
                alt.append(N(rng.choice(names)) if rng.random() < 0.45 else T(rng.choice(terms)))
            if alt not in alts:
                alts.append(alt)
        rules[n] = alts
    pubs = {"S"} | set(rng.sample(names, rng.choice([0, 0, 1, 2]) if nt_n > 2 else 0))
    return mk_grammar(rules, terms, pubs)


def sugar_random(rng):
    g = gen.gen_core(rng, modes=("unit",), sugar=0.25, template=0.6)
    if rng.random() < 0.5:
        gen.add_user_inline(rng, g)
    return g


FAMILIES = [
    # LR(1) not LALR(1)
    ({"S": [["a", "A", "c"], ["a", "B", "d"], ["b", "B", "c"], ["b", "A", "d"]], "A": [["e"]], "B": [["e"]]}, "abcde"),
    # LALR not SLR
    ({"S": [["A", "a"], ["b", "A", "c"], ["d", "c"], ["b", "d", "a"]], "A": [["d"]]}, "abcd"),
    # LR(2)
    ({"S": [["A", "a", "b"], ["B", "a", "c"]], "A": [["e"]], "B": [["e"]]}, "abce"),
    # dangling else
    ({"S": [["a", "S"], ["a", "S", "b", "S"], ["c"]]}, "abc"),
    # lane-table paper G0-like: X/Y contexts
    ({"S": [["a", "X", "d"], ["a", "Y", "c"], ["b", "X", "c"], ["b", "Y", "d"]], "X": [["e", "X"], ["e"]], "Y": [["e", "Y"], ["e"]]}, "abcde"),
    # nullable contexts
    ({"S": [["A", "B", "C"]], "A": [["a"], []], "B": [["b"], []], "C": [["c"], []]}, "abc"),
    ({"S": [["A", "a"], ["B", "b"]], "A": [[]], "B": [[]]}, "ab"),
    ({"S": [["S", "S"], ["a"], []]}, "a"),
]


def family(rng):
    rules, terms = rng.choice(FAMILIES)
    rules = {n: [list(a) for a in alts] for n, alts in rules.items()}
    terms = list(terms)
    names = list(rules)
    # small random edits keep us near the LR(1)/LALR(1) boundary
    for _ in range(rng.choice([0, 1, 1, 2])):
        n = rng.choice(names)
        k = rng.random()
        if k < 0.4:
            rules[n].append([rng.choice(terms + names) for _ in range(rng.randint(0, 3))])
        elif k < 0.7 and rules[n]:
            alt = rng.choice(rules[n])
            alt.insert(rng.randint(0, len(alt)), rng.choice(terms + names))
        elif rules[n]:
            alt = rng.choice(rules[n])
            if alt:
                alt[rng.randrange(len(alt))] = rng.choice(terms + names)
    sk = {n: [[(T(x) if x in terms else N(x)) for x in alt] for alt in alts] for n, alts in rules.items()}
    for n in sk:
        uniq = []
        for a in sk[n]:
            if a not in uniq:
                uniq.append(a)
        sk[n] = uniq
    return mk_grammar(sk, terms, {"S"})


def lane_random(rng):
    """lane-table stress grammar (LR(1), mostly not LALR(1)) with a few random edits, so that
    conflicts appear in only some of the left contexts the lane table has to split"""
    from .. import gen3
    g = gen3.gen_lane_stress(rng, actions=False)
    rules = {nt.name: [[it.sym.name for it in alt.items] for alt in nt.alts] for nt in g.nts}
    terms = list(g.terms)
    names = list(rules)
    twins = [n for n in names if n != "S"]
    for _ in range(rng.choice([0, 1, 1, 2, 3])):
        k = rng.random()
        n = rng.choice(twins)
        if k < 0.25:
            # loop: X -> body | body X   (lanes with back edges)
            body = rules[n][0]
            rules[n].append(list(body) + [rng.choice([n, n, rng.choice(twins)])])
        elif k < 0.45:
            # nullable helper at the end of one alternative
            w = "W%d" % len(rules)
            rules[w] = [[], [rng.choice(terms), rng.choice(terms)]] if rng.random() < 0.6 else [[], [rng.choice(terms)]]
            names.append(w)
            alt = rng.choice(rules[n])
            alt.append(w)
        elif k < 0.65:
            rules[n].append([rng.choice(terms + twins) for _ in range(rng.randint(1, 3))])
        elif k < 0.8:
            alt = rng.choice(rules["S"])
            alt.insert(rng.randint(0, len(alt)), rng.choice(terms))
        else:
            alt = rng.choice(rules[n])
            if alt:
                alt[rng.randrange(len(alt))] = rng.choice(terms)
    sk = {n: [[(T(x) if x in terms else N(x)) for x in alt] for alt in alts] for n, alts in rules.items()}
    for n in sk:
        uniq = []
        for a in sk[n]:
            if a not in uniq:
                uniq.append(a)
        sk[n] = uniq
    return mk_grammar(sk, terms, {"S"})


def lane_loop(rng):
    """two left contexts x two twin nonterminals with LOOPING bodies (lanes with back edges),
    follow tokens arranged so the grammar is LR(1) but not LALR(1), plus one extra production
    whose FIRST set collides with the follow token of only one context: a conflict that exists
    in one of the split copies of a state and not in the other."""
    t = list("abcdefghij")
    rng.shuffle(t)
    a, b, c, d, e, f, g2, h = t[:8]
    X, Y = "X", "Y"
    fol = [(a, X, d), (a, Y, c), (b, X, c), (b, Y, d)]
    if rng.random() < 0.3:
        fol = [(a, X, c), (a, Y, d), (b, X, d), (b, Y, c)]
    rules = {"S": [[p, n, q] for (p, n, q) in fol]}
    loop = rng.choice(["right", "right", "left", "none"])
    for n in (X, Y):
        if loop == "right":
            rules[n] = [[e], [e, f, n]]
        elif loop == "left":
            rules[n] = [[e], [n, f, e]]
        else:
            rules[n] = [[e], [e, f]]
    if rng.random() < 0.85:
        n = rng.choice([X, Y])
        wshape = rng.choice([[[], [c, c]], [[], [c]], [[], [d, d]], [[c], [c, c]], [[], [g2]], [[], [c, d]]])
        rules["W"] = [list(x) for x in wshape]
        where = rng.random()
        if where < 0.6:
            rules[n].append([e, f, "W"])
        elif where < 0.8:
            rules[n].append([e, "W"])
        else:
            rules[n].append(["W", e])
    if rng.random() < 0.3:
        rules["S"].append([rng.choice([X, Y]), rng.choice([c, d, h])])
    if rng.random() < 0.3:
        rules["S"].pop(rng.randrange(len(rules["S"])))
    terms = sorted({x for alts in rules.values() for alt in alts for x in alt if x not in rules})
    sk = {n: [[(T(x) if x in terms else N(x)) for x in alt] for alt in alts] for n, alts in rules.items()}
    return mk_grammar(sk, terms, {"S"})


def tiny_space():
    """all grammars with one nonterminal S over {a, b}: 1..3 distinct alternatives, RHS <= 2"""
    syms = ["a", "b", "S"]
    rhss = [[]] + [[x] for x in syms] + [[x, y] for x in syms for y in syms]
    for k in (1, 2, 3):
        for combo in itertools.combinations(range(len(rhss)), k):
            yield {"S": [rhss[i] for i in combo]}


def tiny2_space():
    """two nonterminals S, A over {a, b}: 1..2 alternatives each, RHS <= 2"""
    syms = ["a", "b", "S", "A"]
    rhss = [[]] + [[x] for x in syms] + [[x, y] for x in syms for y in syms]
    sets = [c for k in (1, 2) for c in itertools.combinations(range(len(rhss)), k)]
    for cs in sets:
        for ca in sets:
            yield {"S": [rhss[i] for i in cs], "A": [rhss[i] for i in ca]}


def job(spec):
    kind, arg, bin_, workroot = spec
    rng = random.Random(arg) if isinstance(arg, int) else None
    if kind == "raw":
        g = raw_random(rng)
    elif kind == "sugar":
        g = sugar_random(rng)
    elif kind == "family":
        g = family(rng)
    elif kind == "lane":
        k_ = rng.random()
        if k_ < 0.4:
            g = lane_random(rng)
        elif k_ < 0.8:
            g = lane_loop(rng)
        else:
            from .. import gen3
            g0 = gen3.gen_nullable_tails(rng, actions=False)
            g = mk_grammar({nt.name: [[it.sym for it in a.items] for a in nt.alts] for nt in g0.nts}, g0.terms, {"S"})
    elif kind == "rules":
        rules = arg
        terms = sorted({x for alts in rules.values() for alt in alts for x in alt if x not in rules})
        sk = {n: [[(T(x) if x in terms else N(x)) for x in alt] for alt in alts] for n, alts in rules.items()}
        g = mk_grammar(sk, terms, {"S"})
    else:
        rules = arg
        sk = {n: [[(T(x) if x in ("a", "b") else N(x)) for x in alt] for alt in alts] for n, alts in rules.items()}
        g = mk_grammar(sk, ["a", "b"], {"S"})
    text = text_of(g)
    try:
        orc = oracle(g)
    except (lr1.TooBig, ValueError) as e:
        return {"kind": kind, "text": text, "oracle": None, "why": str(e)}
    # oracle self-check (harness bug, not a LALRPOP alarm): an LR(1)-clean grammar is unambiguous
    selfcheck = None
    if rng is not None and not orc["lr1"] and rng.random() < 0.15:
        from .. import earley
        cfg = gmodel.desugar(g)
        for s0 in g.starts():
            for _ in range(4):
                w = gen.random_sentence(rng, cfg, s0, depth=rng.randint(2, 6), max_len=14)
                if w is None:
                    continue
                ch = earley.Chart(cfg, s0, w)
                if not ch.accepted():
                    selfcheck = "generated sentence not recognised: %s" % w
                elif len(ch.trees(2)) > 1:
                    selfcheck = "oracle says LR(1) but %s has two derivations" % w
        selfcheck = selfcheck or "ok"
    d = tempfile.mkdtemp(dir=workroot)
    out = {}
    try:
        for tag in CONFIGS:
            p = os.path.join(d, "g.lalrpop")
            with open(p, "w") as f:
                f.write(subject.apply_config(text, tag))
            res = subject.run_lalrpop(bin_, p, out_dir=d, env=subject.config_env(tag), timeout=60)
            out[tag] = classify(res)
            if out[tag] not in ("accept", "conflict"):
                out[tag + "_msg"] = (res["stderr"] + res["stdout"])[-400:]
            elif out[tag] == "conflict" and tag == "td_lane":
                # does some reported item carry EVERY terminal + Eof as lookahead (an LR(0) state the
                # lane table left unresolved)?
                import re as _re
                allt = set(gmodel.term_text(t) for t in g.terms) | {"Eof"}
                full = False
                for m in _re.finditer(r"\(\*\)[^\[\n]*\[([^\]]*)\]", res["stdout"] + res["stderr"]):
                    la = set(x.strip() for x in m.group(1).split(","))
                    if allt <= la:
                        full = True
                out["td_lane_unresolved_all_lookahead"] = full
    finally:
        shutil.rmtree(d, ignore_errors=True)
    return {"kind": kind, "text": text, "oracle": orc, "cli": out, "selfcheck": selfcheck, "sugar": any(nt.inline for nt in g.nts) or "*" in text or "?" in text or "+" in text}


def run(tier, seed):
    chk = core.Check("C03", "exploration", tier, seed)
    assert lr1.selftest()
    bin_ = core.build_lalrpop()
    base = core.seed_for("C03", seed) % (2 ** 31)
    n = {"quick": (1000, 600, 500, 800, 900), "thorough": (5000, 3000, 2500, 8000, 5000)}[tier]
    if os.environ.get("VERIF_C03_ALL_TINY2"):
        # the whole two-nonterminal space (53361 grammars x 3 configurations, about an hour on 16 idle cores)
        n = n[:3] + (None,) + n[4:]
    specs = []
    wr = chk.work
    for rules in tiny_space():
        specs.append(("tiny1", rules, bin_, wr))
    t2 = list(tiny2_space())
    if n[3] is not None:
        t2 = random.Random(base).sample(t2, n[3])
    for rules in t2:
        specs.append(("tiny2", rules, bin_, wr))
    for i in range(n[0]):
        specs.append(("raw", base + i, bin_, wr))
    for i in range(n[1]):
        specs.append(("sugar", base + 10 ** 6 + i, bin_, wr))
    for i in range(n[2]):
        specs.append(("family", base + 2 * 10 ** 6 + i, bin_, wr))
    for i in range(n[4]):
        specs.append(("lane", base + 3 * 10 ** 6 + i, bin_, wr))
    from .. import probes
    specs.append(("tiny2", probes.F14_RULES, bin_, wr))     # deterministic probe of known finding F14
    specs.append(("rules", probes.F26_RULES, bin_, wr))     # deterministic probe of known finding F26
    results = core.pmap(job, specs, chunksize=16)
    seen = set()
    for r in results:
        h = core.sha(r["text"])[:12]
        if r["oracle"] is None:
            chk.inconclusive += 1
            chk.count("oracle_out_of_budget")
            continue
        o = r["oracle"]
        if r.get("selfcheck") not in (None, "ok"):
            raise core.HarnessError("LR(1) oracle inconsistent with Earley: %s\n%s" % (r["selfcheck"], r["text"]))
        if r.get("selfcheck") == "ok":
            chk.count("oracle_selfchecks_passed")
        chk.count("kind_" + r["kind"])
        for tag in CONFIGS:
            chk.evaluations += 1
            want_conflict = o["lalr"] if tag == "td_lalr" else o["lr1"]
            got = r["cli"][tag]
            if got not in ("accept", "conflict"):
                if got in ("panic", "signal"):
                    chk.count("cli_panic_seen_(C18)")
                elif got == "timeout":
                    chk.inconclusive += 1
                else:
                    chk.count("cli_other_error")
                    chk.extra.setdefault("other_error_samples", [])
                    if len(chk.extra["other_error_samples"]) < 3:
                        chk.extra["other_error_samples"].append(r["cli"].get(tag + "_msg"))
                continue
            chk.count("%s_%s" % (tag, got))
            ok = (got == "conflict") == want_conflict
            if not ok:
                kind = "missed_conflict" if want_conflict else "false_conflict"
                w = {"kind": kind, "sig": "%s/%s" % (kind, tag), "config": tag,
                     "summary": "%s under %s: oracle lr1_conflict=%s lalr_conflict=%s, lalrpop says %s" % (kind, tag, o["lr1"], o["lalr"], got),
                     "grammar": subject.apply_config(r["text"], tag), "env": subject.config_env(tag),
                     "oracle": o, "cli": r["cli"]}
                def m_(k, w_):
                    base_ = w_["kind"] == "false_conflict" and w_["config"] == "td_lane" and w_["cli"].get("td_lr1") == "accept"
                    if k.get("id") == "F14":
                        return base_ and bool(w_["oracle"].get("reachable_unproductive"))
                    if k.get("id") == "F26":
                        return base_ and not w_["oracle"].get("reachable_unproductive") and w_["cli"].get("td_lane_unresolved_all_lookahead") is True
                    return False
                chk.violation(w, m_)
            if h not in seen:
                # non-trivial: the three criteria do not all agree trivially (has a nonterminal reference)
                pass
        key = (h,)
        if h not in seen:
            seen.add(h)
            if o["lr1"] != o["lalr"]:
                chk.count("lr1_but_not_lalr")
            chk.count("oracle_lr1_conflict" if o["lr1"] else "oracle_lr1_clean")
            if r["sugar"]:
                chk.count("with_sugar_or_inline")
            chk.nontriv(h)
        if len(chk.samples) < 4 and r["kind"] in ("family", "sugar") and chk.evaluations % 401 == 0:
            chk.sample({"grammar": r["text"], "oracle": {"lr1_conflict": o["lr1"], "lalr_conflict": o["lalr"], "lr1_states": o["states"]}, "cli": r["cli"]})
    if not chk.samples and results:
        r = results[-1]
        chk.sample({"grammar": r["text"], "oracle": r["oracle"], "cli": r.get("cli")})
    chk.rule = "grammar (all nonterminals of type (), no user code) x {lane table, canonical LR(1), LALR(1)}: CLI outcome vs textbook automaton; distinct = distinct grammar text; exhaustive sub-space: all 377 one-nonterminal grammars over {a,b} with <=3 alternatives of length <=2"
    chk.extra["exhaustive_subspace"] = "tiny1: all one-nonterminal grammars (377)" + ("; tiny2: all 53361 two-nonterminal grammars" if n[3] is None else "; tiny2 sampled")
    chk.assumptions = ["vlib/lr1.py (self-tested on textbook grammars at start-up)", "reference desugaring/inlining of ?,*,+,groups,#[inline]"]
    return chk.finish(min_nontrivial=200, min_evaluations=1000)


def replay(path, seed):
    import json
    w = json.load(open(path))["witness"]
    bin_ = core.build_lalrpop()
    d = tempfile.mkdtemp()
    try:
        p = os.path.join(d, "g.lalrpop")
        open(p, "w").write(w["grammar"])
        res = subject.run_lalrpop(bin_, p, out_dir=d, env=w.get("env"))
        got = classify(res)
    finally:
        shutil.rmtree(d, ignore_errors=True)
    print("lalrpop now says:", got, "| witness kind:", w["kind"])
    if (w["kind"] == "missed_conflict" and got == "accept") or (w["kind"] == "false_conflict" and got == "conflict"):
        print("VIOLATION property=C03 replay=%s" % path)
        return 1
    return 0
