from ._basic import run_basic


def run(tier, seed):
    return run_basic("C06", tier, seed)


def replay(path, seed):
    from ..replay import replay_pipeline
    from .. import pipeline
    return replay_pipeline("C06", path, monitor=lambda chk, props, *a: pipeline.monitor_basic(chk, {"C02"}, *a))
