"""C15: conditional compilation equals deleting the inactive declarations.
For generated grammars with #[cfg(..)] on nonterminals, alternatives and extern conversions and
EVERY subset of their feature names: output of the real LALRPOP (features via --features,
Configuration::set_features, or CARGO_FEATURE_* env) vs output for the hand-deleted grammar
(reference predicate evaluator with Rust semantics + textual deletion)."""
import copy
import hashlib
import itertools
import os
import random
import shutil
import tempfile

from .. import apidriver, core, gen, gmodel, subject, tools

FEATS = ["f1", "foo-bar", "bit_ops", "Up"]     # dash, underscore and upper case: only the env path mangles names


def gen_pred(rng, depth=0):
    k = rng.random()
    if depth >= 3 or k < 0.4:
        return ("feat", rng.choice(FEATS))
    if k < 0.6:
        return ("not", gen_pred(rng, depth + 1))
    n = rng.choice([1, 2, 2, 3])   # (LALRPOP rejects empty all()/any() with a diagnostic; not generated)
    return (rng.choice(["all", "any"]), [gen_pred(rng, depth + 1) for _ in range(n)])


def pred_text(p):
    if p[0] == "feat":
        return 'feature = "%s"' % p[1]
    if p[0] == "not":
        return "not(%s)" % pred_text(p[1])
    return "%s(%s)" % (p[0], ", ".join(pred_text(x) for x in p[1]))


def pred_eval(p, F):
    if p[0] == "feat":
        return p[1] in F
    if p[0] == "not":
        return not pred_eval(p[1], F)
    if p[0] == "all":
        return all(pred_eval(x, F) for x in p[1])
    return any(pred_eval(x, F) for x in p[1])


class CfgGrammar:
    def __init__(self, rng):
        g = gen.gen_core(rng, modes=("user", "user", "unit"), sugar=0.1, template=0.6, npub=(1, 2))
        self.g = g
        self.nt_cfg = {}     # nt name -> [preds]
        self.alt_cfg = {}    # (nt name, alt index) -> [preds]
        self.term_cfg = {}   # terminal -> [preds]
        for nt in g.nts:
            if rng.random() < 0.3:
                self.nt_cfg[nt.name] = [gen_pred(rng) for _ in range(rng.choice([1, 1, 2]))]
            for i, a in enumerate(nt.alts):
                if a.items and rng.random() < 0.35:   # (an empty alternative cannot carry attributes)
                    self.alt_cfg[(nt.name, i)] = [gen_pred(rng) for _ in range(rng.choice([1, 1, 1, 2]))]
        for t in g.terms:
            if rng.random() < 0.15:
                self.term_cfg[t] = [gen_pred(rng)]
        # an extra alternative that only exists under some feature (often makes language differ)
        if rng.random() < 0.5:
            nt = rng.choice([n for n in g.nts if n.ty == "V"] or g.nts)
            if nt.ty == "V":
                from ..gmodel import Alt, Item, T
                nt.alts.append(Alt([Item(T(rng.choice(g.terms)), ("name", "x", False)), Item(T(rng.choice(g.terms)), ("name", "y", False))], action="named", pid=900))
                self.alt_cfg[(nt.name, len(nt.alts) - 1)] = [gen_pred(rng)]

    def text(self, F=None):
        """F=None: annotated text; else the hand-deleted text for feature set F"""
        g = copy.deepcopy(self.g)
        attr = lambda ps: " ".join("#[cfg(%s)]" % pred_text(p) for p in ps)
        keep_nts = []
        for nt in g.nts:
            ps = self.nt_cfg.get(nt.name, [])
            if F is None:
                if ps:
                    nt.attrs = [attr(ps)]
            elif not all(pred_eval(p, F) for p in ps):
                continue
            alts = []
            for i, a in enumerate(nt.alts):
                aps = self.alt_cfg.get((nt.name, i), [])
                if F is None:
                    if aps:
                        a.attrs = [attr(aps)]
                    alts.append(a)
                elif all(pred_eval(p, F) for p in aps):
                    alts.append(a)
            nt.alts = alts
            keep_nts.append(nt)
        g.nts = keep_nts
        s = gmodel.grammar_text(g).replace(gmodel.CONFIG_MARK, "")
        out = []
        for line in s.split("\n"):
            st = line.strip()
            hit = None
            for t, ps in self.term_cfg.items():
                if st.startswith(gmodel.term_text(t) + " => Tok"):
                    hit = (t, ps)
            if hit:
                if F is None:
                    line = "        " + attr(hit[1]) + " " + st
                elif not all(pred_eval(p, F) for p in hit[1]):
                    continue
            out.append(line)
        return "\n".join(out)


def strip_header(data):
    parts = data.split(b"\n", 2)
    return parts[2] if len(parts) == 3 else data


def generate(bin_, work, text, how, F):
    d = tempfile.mkdtemp(dir=work)
    try:
        p = os.path.join(d, "g.lalrpop")
        open(p, "w").write(text)
        if how == "cli":
            extra = ["--features", ",".join(sorted(F))] if F else []
            res = subject.run_lalrpop(bin_, p, out_dir=d, extra=extra)
            st = subject.classify_cli(res)
            msg = res["stderr"]
        elif how == "api":
            r = apidriver.call({"op": "process_file", "path": p, "out_dir": d, "force": True, "features": sorted(F)})
            st, msg = ("ok" if r["status"] == "ok" else ("panic" if r["status"] in ("panic", "crash") else "error")), r["msg"]
        else:   # env: CARGO_FEATURE_* picked up by process_dir when no explicit feature set is given
            env = {"CARGO_FEATURE_" + f.upper().replace("-", "_"): "1" for f in F}
            r = apidriver.call({"op": "process_dir", "path": d, "out_dir": d, "force": True}, env=env)
            st, msg = ("ok" if r["status"] == "ok" else ("panic" if r["status"] in ("panic", "crash") else "error")), r["msg"]
        rs = os.path.join(d, "g.rs")
        data = open(rs, "rb").read() if (st == "ok" and os.path.exists(rs)) else None
        return st, data, msg
    finally:
        shutil.rmtree(d, ignore_errors=True)


def job(args):
    seed, bin_, work = args
    rng = random.Random(seed)
    cg = CfgGrammar(rng)
    ann = cg.text(None)
    out = []
    ref_cache = {}
    for k in range(len(FEATS) + 1):
        for F in itertools.combinations(FEATS, k):
            F = set(F)
            how = rng.choice(["cli", "cli", "api", "env"])
            st, data, msg = generate(bin_, work, ann, how, F)
            # CARGO_FEATURE_FOO_BAR -> "foo-bar": through the environment only lower-case dashed names exist
            F_eff = {f.upper().replace("-", "_").replace("_", "-").lower() for f in F} if how == "env" else F
            dtext = cg.text(F_eff)
            if dtext not in ref_cache:
                ref_cache[dtext] = generate(bin_, work, dtext, "cli", set())
            rst, rdata, rmsg = ref_cache[dtext]
            rec = {"F": sorted(F), "how": how, "status": st, "ref_status": rst, "verdict": None}
            if st in ("panic", "signal", "timeout") or rst in ("panic", "signal", "timeout"):
                rec["verdict"] = "panic_seen"
            elif (st == "ok") != (rst == "ok"):
                rec["verdict"] = "acceptance_differs"
                rec["msg"] = (msg or "")[-300:] + " | ref: " + (rmsg or "")[-300:]
            elif st != "ok":
                rec["verdict"] = "both_rejected"
            else:
                a, b = strip_header(data), strip_header(rdata)
                if a == b:
                    rec["verdict"] = "identical_bytes"
                else:
                    c = tools.call({"op": "tokcmp", "a": a.decode(errors="replace"), "b": b.decode(errors="replace")})
                    rec["verdict"] = "identical_tokens" if c.get("equal") else "program_differs"
                    rec["diff"] = c
            out.append(rec)
    nitems = len(cg.nt_cfg) + len(cg.alt_cfg) + len(cg.term_cfg)
    return {"seed": seed, "annotated": ann, "records": out, "cfg_items": nitems, "deleted_variants": len(ref_cache)}


def run(tier, seed):
    chk = core.Check("C15", "translation_validation", tier, seed)
    bin_ = core.build_lalrpop()
    apidriver.build()
    tools.build()
    base = core.seed_for("C15", seed) % (2 ** 31)
    n = {"quick": 200, "thorough": 1500}[tier]
    res = core.pmap(job, [(base + i, bin_, chk.work) for i in range(n)], chunksize=2)
    programs = 0
    for r in res:
        if r["cfg_items"] == 0:
            chk.count("grammars_without_cfg")
            continue
        for rec in r["records"]:
            chk.evaluations += 1
            chk.count("verdict_" + rec["verdict"])
            chk.count("via_" + rec["how"])
            if rec["verdict"] in ("acceptance_differs", "program_differs"):
                chk.violation({"kind": rec["verdict"], "sig": rec["verdict"] + "/" + rec["how"], "summary": "%s features=%s via %s: %s" % (rec["verdict"], rec["F"], rec["how"], str(rec.get("msg") or rec.get("diff"))[:400]),
                               "grammar": r["annotated"], "features": rec["F"], "how": rec["how"], "seed": r["seed"]})
            elif rec["verdict"] in ("identical_bytes", "identical_tokens"):
                programs += 1
                if r["deleted_variants"] > 1:
                    chk.nontriv((r["seed"], tuple(rec["F"])))
        if len(chk.samples) < 3 and r["deleted_variants"] > 2:
            chk.sample({"annotated_grammar": r["annotated"], "outcomes": [(x["F"], x["how"], x["verdict"]) for x in r["records"]]})
    chk.extra["programs"] = programs
    chk.extra["disagreements_checked"] = chk.counters.get("verdict_program_differs", 0) + chk.counters.get("verdict_acceptance_differs", 0)
    chk.extra["trusted_base"] = ["reference predicate evaluator (Rust cfg semantics) and textual deletion in vlib/checks/c15.py", "proc_macro2 tokenizer"]
    chk.exhaustive = None
    chk.rule = "grammar with 1..n #[cfg] attributes (feature=, not, all, any, nesting <= 3, several attributes per item) on nonterminals, alternatives and extern conversions x ALL subsets of the three feature names (exhaustive per grammar) x {--features, set_features, CARGO_FEATURE_* with name mangling}; outputs compared (bytes after the header, else token streams) with the output of the hand-deleted grammar; non-trivial = grammar whose subsets give more than one distinct deleted text"
    return chk.finish(min_nontrivial=50, min_evaluations=200)


def replay(path, seed):
    print("replay: the witness holds the annotated grammar and the feature set")
    return 0
