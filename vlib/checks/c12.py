"""C12: precedence and associativity annotations yield the documented operator grammar.
The sugared grammar is run through the real LALRPOP; the oracle is the reference expander
(vlib/gmodel.py: every use replaced by a nonterminal defined by substituting the arguments,
conditions evaluated on the literal argument) + Earley + reference evaluator."""
from .. import core, gen2, pipeline

TAGS = ["td_lane", "ra_lane", "td_lr1"]


def run(tier, seed):
    chk = core.Check("C12", "exploration", tier, seed)
    rng = chk.rng("gen")
    n_gram = {"quick": 56, "thorough": 400}[tier]
    subj, cases = pipeline.make_cases(chk, rng, n_gram, gen2.gen_prec, TAGS,
                                      max_attempts=n_gram * 40)
    irng = chk.rng("inputs")
    execs = []
    budget = {"quick": (60, 100, 40, 30), "thorough": (300, 300, 150, 50)}[tier]
    for c in cases:
        pipeline.inputs_for_case(irng, c, exhaustive_budget=budget[0], nrandom=budget[1], nmut=budget[2], max_len=budget[3], foreign=False)
        for s, ins in c.inputs.items():
            for w in ins:
                for tag in c.mods:
                    execs.append(pipeline.Exec(c, s, w, irng.choice([0, 5]), tag))
    res = pipeline.run_execs(subj, execs)
    orcs = {}
    kinds = {}
    for e in execs:
        key = (e.case.idx, e.start, tuple(e.toks), e.gap)
        o = orcs.get(key)
        if o is None:
            o = pipeline.Oracle(e.case, e.start, e.toks, e.gap)
            orcs[key] = o
        rec = res.get(e.idx)
        chk.evaluations += 1
        pipeline.monitor_basic(chk, {"C01", "C02"}, e.case, e, rec, o)
        if rec and rec.get("r") and o.accepted and e.toks:
            chk.nontriv((core.sha(e.case.text)[:10], e.tag, e.start, tuple(e.toks)))
        if chk.evaluations % 1999 == 1 and rec and rec.get("r"):
            chk.sample({"grammar": e.case.text, "config": e.tag, "input": e.toks, "result": rec["r"], "reference_cfg": e.case.cfg.text()[:1500]})
    shapes = {}
    for c in cases:
        e = c.g.nt("E")
        levels = set()
        lv = None
        for a in e.alts:
            if a.prec and a.prec[0] is not None:
                lv = a.prec[0]
            levels.add(lv)
            if a.prec and a.prec[1]:
                shapes["assoc_" + a.prec[1]] = shapes.get("assoc_" + a.prec[1], 0) + 1
            if not a.prec or a.prec[0] is None:
                shapes["inherited_level"] = shapes.get("inherited_level", 0) + 1
        shapes["levels_%d" % len(levels)] = shapes.get("levels_%d" % len(levels), 0) + 1
    chk.extra["annotation_shapes"] = shapes
    chk.extra["grammars"] = len(cases)
    chk.rule = "annotated nonterminal E with 2-5 levels (gaps, interleaved source order, inherited level/assoc, assoc left/right/none/all on binary, prefix, postfix, ternary, n-ary, grouped and optional-suffix alternatives) referenced from S; inputs: exhaustive short operator strings, sentences, mutants; membership and parse tree compared with the reference tier grammar (DESIGN A.4) through Earley + reference evaluator; distinct by (grammar hash, config, input); non-trivial = sentence"
    chk.assumptions = ["reference tier builder vlib/gmodel.py do_prec_nt, written from the property statement"]
    return chk.finish(min_nontrivial=100, min_evaluations=1000)


def replay(path, seed):
    from ..replay import replay_pipeline
    return replay_pipeline("C12", path, monitor=lambda chk, props, *a: pipeline.monitor_basic(chk, {"C01", "C02"}, *a))
