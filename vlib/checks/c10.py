"""C10: literal and regex terminals match exactly their own language, even after LALRPOP
re-renders the regex for the generated lexer.  Same engine as C09 (compiled generated lexers vs
the reference lexer that full-matches the ORIGINAL pattern text with the `regex` crate), with
1-2 terminals per lexer drawn from metacharacter-heavy literals and syntax-directed regexes
(classes, negation, nesting, bounded repetition, alternation, flags, Unicode classes, escapes),
and texts sampled from the patterns plus single-edit mutants."""
from .. import core, lexcheck, lexgen

TAGS = ["td_lane"]


def texts_for(rng, spec, n):
    out = lexgen.gen_texts(rng, spec, n=n // 2, maxlen=8)
    alpha = list(lexgen.ALPHA) + lexgen.EXOTIC[:6] + list(".^$|()[]{}*+?\\-#\"' \t\n")
    for e in spec.entries:
        base = []
        if e.kind == "lit":
            base = [e.src, e.src * 2, e.src[:-1], e.src + e.src[:1]]
        else:
            for _ in range(n // 4):
                try:
                    base.append(lexgen.rx_sample(rng, e.ast))
                except Exception:
                    pass
        for b in base:
            out.append(b)
            if b:
                i = rng.randrange(len(b))
                k = rng.random()
                if k < 0.4:
                    out.append(b[:i] + rng.choice(alpha) + b[i + 1:])
                elif k < 0.7:
                    out.append(b[:i] + b[i + 1:])
                else:
                    out.append(b[:i] + rng.choice(alpha) + b[i:])
                if b.lower() != b or b.upper() != b:
                    out.append(b.swapcase())
    seen = set()
    res = []
    for t in out:
        if t not in seen and "\r" not in t:
            seen.add(t)
            res.append(t)
    return res


def run(tier, seed):
    chk = core.Check("C10", "exploration", tier, seed)
    rng = chk.rng("gen")
    n = {"quick": 300, "thorough": 2500}[tier]
    subj, cases, rejected = lexcheck.make_lex_cases(
        chk, rng, n, lambda r: lexgen.gen_spec(r, nent=(1, 2), match_p=0.25, exotic=0.35, lit_p=0.45, nullable=0.2), tags=TAGS)
    trng = chk.rng("texts")
    ntext = {"quick": 40, "thorough": 120}[tier]
    meta, res = lexcheck.run_lex(chk, subj, cases, lambda c: texts_for(trng, c.spec, ntext), TAGS)
    lexcheck.monitor_lex(chk, "C10", meta, res)
    kinds = {"lit": 0, "re": 0}
    for c in cases:
        for e in c.spec.entries:
            kinds[e.kind] += 1
    chk.extra["terminals_literal"] = kinds["lit"]
    chk.extra["terminals_regex"] = kinds["re"]
    chk.extra["compile_failures"] = len(subj.compile_failures)
    if subj.compile_failures:
        chk.extra["compile_failure_sample"] = list(subj.compile_failures.values())[0][:600]
    for c in cases[:4]:
        chk.sample({"patterns": [(e.kind, e.src) for e in c.spec.entries], "texts": c.texts[:6]})
    chk.rule = "lexer with 1-2 terminals (literal over metacharacters/escapes/non-ASCII, or generated regex) x text (sample of the pattern, single-edit mutant, case swap, noise); non-trivial = a token or an InvalidToken offset was compared with the reference full-match lexer; distinct by (lexer, text)"
    chk.assumptions = ["`regex` crate on the original pattern text is the definition of the language (as the property states)"]
    return chk.finish(min_nontrivial=200, min_evaluations=1000)


def replay(path, seed):
    from ..replay_lex import replay as r
    return r("C10", path)
