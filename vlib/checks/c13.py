"""C13: macros, repetitions and conditional alternatives expand by substitution.
The sugared grammar is run through the real LALRPOP; the oracle is the reference expander
(vlib/gmodel.py: every use replaced by a nonterminal defined by substituting the arguments,
conditions evaluated on the literal argument) + Earley + reference evaluator."""
from .. import core, gen2, pipeline

TAGS = ["td_lane", "ra_lane", "td_lr1"]


def run(tier, seed):
    chk = core.Check("C13", "exploration", tier, seed)
    rng = chk.rng("gen")
    n_gram = {"quick": 56, "thorough": 400}[tier]
    subj, cases = pipeline.make_cases(chk, rng, n_gram, gen2.gen_macros, TAGS,
                                      want=lambda g, cfg: getattr(g, "macro_uses", 0) >= 1, max_attempts=n_gram * 40)
    irng = chk.rng("inputs")
    execs = []
    budget = {"quick": (60, 100, 40, 30), "thorough": (300, 300, 150, 50)}[tier]
    for c in cases:
        pipeline.inputs_for_case(irng, c, exhaustive_budget=budget[0], nrandom=budget[1], nmut=budget[2], max_len=budget[3], foreign=False)
        for s, ins in c.inputs.items():
            for w in ins:
                for tag in c.mods:
                    execs.append(pipeline.Exec(c, s, w, irng.choice([0, 5]), tag))
    res = pipeline.run_execs(subj, execs)
    orcs = {}
    kinds = {}
    for e in execs:
        key = (e.case.idx, e.start, tuple(e.toks), e.gap)
        o = orcs.get(key)
        if o is None:
            o = pipeline.Oracle(e.case, e.start, e.toks, e.gap)
            orcs[key] = o
        rec = res.get(e.idx)
        chk.evaluations += 1
        pipeline.monitor_basic(chk, {"C01", "C02"}, e.case, e, rec, o)
        if rec and rec.get("r") and o.accepted and e.toks:
            chk.nontriv((core.sha(e.case.text)[:10], e.tag, e.start, tuple(e.toks)))
        if chk.evaluations % 1999 == 1 and rec and rec.get("r"):
            chk.sample({"grammar": e.case.text, "config": e.tag, "input": e.toks, "result": rec["r"], "reference_cfg": e.case.cfg.text()[:1500]})
    for c in cases:
        for nt in c.g.nts:
            if nt.params:
                kinds[nt.name] = kinds.get(nt.name, 0) + 1
    chk.extra["macro_definitions_by_shape"] = kinds
    chk.extra["grammars"] = len(cases)
    chk.extra["macro_uses"] = sum(getattr(c.g, "macro_uses", 0) for c in cases)
    chk.rule = "grammar with 1-4 macro definitions (plain, two-parameter, conditional ==/!=/~~/!~, list-with-separator, optional, self-recursive tier) used 1-6 times with literal / nonterminal / group / repeat / nested-macro arguments, plus `*`,`+`,`?` and groups; inputs: exhaustive short strings, sentences, mutants; non-trivial = sentence of the reference-expanded grammar (membership and value compared); distinct by (grammar hash, config, input)"
    chk.assumptions = ["reference expander: vlib/gmodel.py Desugar (written from the book)", "regex conditions limited to patterns on which Python `re.search` and Rust `Regex::is_match` agree"]
    return chk.finish(min_nontrivial=100, min_evaluations=1000)


def replay(path, seed):
    from ..replay import replay_pipeline
    return replay_pipeline("C13", path, monitor=lambda chk, props, *a: pipeline.monitor_basic(chk, {"C01", "C02"}, *a))
