"""C11: lexer ambiguity is reported exactly when two equal-precedence terminals overlap;
unsupported regex features are rejected with a diagnostic.
Subject: the real CLI on generated terminal sets.  Oracle: product of anchored dense DFAs
(vtools `intersect`, regex-automata with the runtime's Unicode/UTF-8 configuration) on every
pair of equal-rank patterns, with a shortest witness that is re-checked by full match."""
import copy
import os
import random
import re
import shutil
import tempfile

from .. import core, lexgen, subject, tools

UNSUPPORTED = [r"\bab", r"ab\b", r"^ab", r"ab$", r"a*?b", r"a+?", r"a??b", r"(?P<n>ab)", r"(?m)^a", r"\Aab", r"ab\z", r"a{1,2}?b", r"\Bab"]


def near(rng, e):
    """a pattern close to e (same alphabet) to provoke near-overlaps"""
    if e.kind == "lit":
        src = e.src
        k = rng.random()
        if k < 0.3:
            ast = ("seq", [("c", c) for c in src]) if src else ("c", "a")
        elif k < 0.6 and src:
            ast = ("seq", [("c", c) for c in src[:-1]] + [("cls", [(src[-1], src[-1]), ("a", "c")], False)])
        else:
            ast = ("rep", ("cls", [("a", "c"), ("0", "1")], False), 1, None)
    else:
        k = rng.random()
        if k < 0.3:
            ast = ("flag", "i", e.ast)
        elif k < 0.5:
            ast = ("seq", [e.ast, ("c", rng.choice(lexgen.ALPHA))])
        elif k < 0.7:
            ast = ("alt", [e.ast, lexgen.gen_rx(rng, depth=2)])
        else:
            ast = ("rep", e.ast, 1, 2)
    return lexgen.Entry("re", lexgen.rx_src(ast), ast)


SPECIAL = [
    (("re", "é"), ("re", "[à-ÿ]")), (("re", "é"), ("re", "[Ã-Ä][©-ª]")), (("re", "λ+"), ("re", "\\p{Greek}+")), (("re", "ß"), ("re", "(?i)SS")),
    (("re", "[a-z]+"), ("re", "[a-c]+")), (("re", "a|b"), ("re", "[b-c]")), (("re", "(ab)+"), ("re", "a(ba)*b")), (("re", "a+b"), ("re", "ab+")),
    (("re", "[^a]"), ("re", "b")), (("re", "."), ("re", "\\n")), (("re", "(?s:.)"), ("re", "\\n")), (("re", "\\w+"), ("re", "\\d+")), (("re", "\\d+"), ("re", "٣")),
    (("re", "a{2,3}"), ("re", "a{4,5}")), (("re", "a{2,3}"), ("re", "a{3,5}")), (("re", "(?i)k"), ("re", "K")), (("re", "x*"), ("re", "y*")), (("re", "x*"), ("re", "x+")),
    (("re", "é"), ("re", "é")), (("re", "[à-ÿ]"), ("re", "\\p{Ll}")), (("re", "\\x{e9}"), ("re", "[é]")), (("re", "€"), ("re", "[^a-z]")),
]


def gen_case(rng):
    k = rng.random()
    if k < 0.15:
        a, b = rng.choice(SPECIAL)
        entries = [lexgen.Entry(a[0], a[1]), lexgen.Entry(b[0], b[1])]
        spec = lexgen.LexSpec(entries, 1, None)
        for e in entries:
            e.rung = 0
        if rng.random() < 0.3:
            entries[1].rung = 1
            spec.nrungs = 2
        entries[0].mapping = ("id", "A")
        entries[1].mapping = ("id", "B") if rng.random() < 0.8 else ("skip",)
        return spec, None
    spec = lexgen.gen_spec(rng, nent=(2, 5), match_p=0.75, exotic=0.2, lit_p=0.3, nullable=0.1)
    if rng.random() < 0.6:
        e = rng.choice(spec.entries)
        n = near(rng, e)
        if all((n.kind, n.src) != (x.kind, x.src) for x in spec.entries):
            n.rung = e.rung
            n.mapping = ("id", "NEAR") if spec.nrungs and n.rung is not None else ("self",)
            spec.entries.append(n)
    unsupported = None
    if rng.random() < 0.12:
        u = rng.choice(UNSUPPORTED)
        e = lexgen.Entry("re", u)
        e.rung = rng.randrange(spec.nrungs) if spec.nrungs else None
        if e.rung is None and spec.catch_rung is None:
            e.rung = 0
        e.mapping = ("id", "UNS") if e.rung is not None else ("self",)
        spec.entries.append(e)
        unsupported = u
    return spec, unsupported


def job(spec_):
    seed, bin_, workroot = spec_
    rng = random.Random(seed)
    spec, unsupported = gen_case(rng)
    text = spec.grammar_text().replace("/*@CONFIG@*/", "")
    d = tempfile.mkdtemp(dir=workroot)
    try:
        p = os.path.join(d, "g.lalrpop")
        with open(p, "w") as f:
            f.write(text)
        res = subject.run_lalrpop(bin_, p, out_dir=d, timeout=120)
    finally:
        shutil.rmtree(d, ignore_errors=True)
    st = subject.classify_cli(res)
    msg = res["stderr"] + res["stdout"]
    out = {"seed": seed, "text": text, "status": st, "unsupported": unsupported, "msg": msg[-700:]}
    if st == "error":
        m = re.search(r"ambiguity detected between the terminal `(.*)` and the terminal `(.*)`", msg)
        out["outcome"] = "ambiguity" if m else "other_error"
        if m:
            out["pair_reported"] = [m.group(1), m.group(2)]
    elif st == "ok":
        out["outcome"] = "accept"
    else:
        out["outcome"] = st
    # oracle
    pats = spec.ref_patterns()
    n = len(spec.entries)
    overlaps = []
    shadowed = []
    eps_only = []
    oerr = None
    for i in range(n):
        for j in range(i + 1, n):
            if pats[i]["rank"] != pats[j]["rank"]:
                continue
            # a tie only exists for strings that no higher-precedence pattern matches entirely
            higher = [{"kind": q["kind"], "src": q["src"]} for q in pats if q["rank"] > pats[i]["rank"]]
            r0 = tools.call({"op": "intersect", "a": {"kind": pats[i]["kind"], "src": pats[i]["src"]}, "b": {"kind": pats[j]["kind"], "src": pats[j]["src"]}})
            if "error" in r0:
                oerr = r0["error"]
                continue
            if not r0["overlap"]:
                if r0.get("empty_overlap"):
                    eps_only.append((i, j))
                continue
            r = r0
            if higher:
                r = tools.call({"op": "intersect", "a": {"kind": pats[i]["kind"], "src": pats[i]["src"]}, "b": {"kind": pats[j]["kind"], "src": pats[j]["src"]}, "minus": higher})
                if "error" in r:
                    oerr = r["error"]
                    continue
            if r["overlap"]:
                overlaps.append((i, j, r["witness"]))
            else:
                # they share strings, but a higher-precedence pattern (explicit rung or the
                # implicit whitespace skip) matches every one of them: no tie at run time.
                # The statement does not say which way this goes: either outcome is accepted.
                shadowed.append((i, j, r0["witness"]))
    out["overlaps"] = overlaps
    out["eps_only"] = eps_only
    out["shadowed"] = shadowed
    out["oracle_error"] = oerr
    out["patterns"] = [(e.kind, e.src, pats[k]["rank"]) for k, e in enumerate(spec.entries)]
    out["gtexts"] = [e.gtext() for e in spec.entries]
    return out


def run(tier, seed):
    chk = core.Check("C11", "exploration", tier, seed)
    bin_ = core.build_lalrpop()
    tools.build()
    base = core.seed_for("C11", seed) % (2 ** 31)
    n = {"quick": 4000, "thorough": 30000}[tier]
    results = core.pmap(job, [(base + i, bin_, chk.work) for i in range(n)], chunksize=8)
    for r in results:
        chk.evaluations += 1
        oc = r["outcome"]
        chk.count("outcome_" + oc)

        def viol(kind, detail):
            chk.violation({"kind": kind, "sig": kind, "summary": "%s: %s" % (kind, str(detail)[:300]), "grammar": r["text"], "patterns": r["patterns"],
                           "cli": oc, "message": r["msg"], "detail": detail})
        if oc in ("panic", "signal"):
            viol("panic", r["msg"][-300:])
            continue
        if oc == "timeout":
            chk.inconclusive += 1
            continue
        if r["unsupported"]:
            chk.count("with_unsupported_feature")
            if oc == "accept":
                viol("unsupported_feature_accepted", r["unsupported"])
            elif oc == "other_error":
                chk.nontriv(("uns", r["seed"]))
            continue
        if r["oracle_error"] and not r["overlaps"]:
            chk.inconclusive += 1
            chk.count("oracle_out_of_budget_or_regex_error")
            continue
        if oc == "other_error":
            chk.count("other_diagnostics")
            chk.extra.setdefault("other_error_samples", [])
            if len(chk.extra["other_error_samples"]) < 4:
                chk.extra["other_error_samples"].append(r["msg"][-250:])
            continue
        if oc == "accept":
            if r["overlaps"]:
                i, j, wit = r["overlaps"][0]
                viol("missed_ambiguity", {"a": r["patterns"][i], "b": r["patterns"][j], "common_string": wit})
            else:
                chk.count("accepted_disjoint" if not r["shadowed"] else "accepted_overlap_shadowed_by_higher_precedence_(unspecified)")
                if r["eps_only"]:
                    chk.count("accepted_with_only_empty_string_in_common")
                chk.nontriv(("acc", r["seed"]))
        elif oc == "ambiguity":
            if r["overlaps"]:
                chk.count("ambiguity_confirmed_by_witness")
                chk.nontriv(("amb", r["seed"]))
            elif r["shadowed"]:
                chk.count("ambiguity_on_strings_shadowed_by_higher_precedence_(unspecified)")
            elif r["eps_only"]:
                # both terminals match only the empty string in common: the statement says
                # "some common string"; the empty string is one, so a report is acceptable
                chk.count("ambiguity_on_empty_string_only")
            else:
                viol("false_ambiguity", {"reported": r.get("pair_reported"), "patterns": r["patterns"]})
        if chk.evaluations % 499 == 1:
            chk.sample({"patterns": r["patterns"], "lalrpop": oc, "overlapping_equal_rank_pairs": r["overlaps"][:2]})
    chk.rule = "terminal set (2-6 literals/regexes in 0-3 match rungs, near-duplicates, non-ASCII, special pairs) -> CLI outcome vs exact DFA-product overlap of every equal-precedence pair; distinct by generator seed; non-trivial = accepted-and-disjoint, or ambiguity confirmed by a witness string, or unsupported feature diagnosed"
    chk.assumptions = ["regex-automata dense DFAs (unicode, utf8) define `both match some common string`", "equal precedence = same rung and same kind (DESIGN A.6)"]
    return chk.finish(min_nontrivial=300, min_evaluations=1000)


def replay(path, seed):
    import json
    w = json.load(open(path))["witness"]
    bin_ = core.build_lalrpop()
    d = tempfile.mkdtemp()
    try:
        p = os.path.join(d, "g.lalrpop")
        open(p, "w").write(w["grammar"])
        res = subject.run_lalrpop(bin_, p, out_dir=d)
    finally:
        shutil.rmtree(d, ignore_errors=True)
    st = subject.classify_cli(res)
    msg = res["stderr"] + res["stdout"]
    amb = "ambiguity detected" in msg
    print("lalrpop now: %s%s | witness kind: %s" % (st, " (ambiguity)" if amb else "", w["kind"]))
    still = (w["kind"] == "missed_ambiguity" and st == "ok") or (w["kind"] == "false_ambiguity" and amb) or \
            (w["kind"] == "unsupported_feature_accepted" and st == "ok") or (w["kind"] == "panic" and st in ("panic", "signal"))
    if still:
        print("VIOLATION property=C11 replay=%s" % path)
        return 1
    return 0
