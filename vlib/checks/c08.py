"""C08: generated parsers always terminate and never panic.
Monitors: (1) logical step budget (lalrpop-util feature `verif`: thread-local counter ticked in
every loop of the parser driver and of Matcher::next; exceeding B(n,G)=64(n+2)^2(|P|+|Sigma|+2)
raises a recognisable panic), (2) any other panic caught by catch_unwind with message+location,
(3) child crashes (abort, stack overflow: recursive ascent has no driver loop to hook),
(4) wall-clock watchdog = inconclusive only.
Workloads: (a) built-in lexers with nullable terminals / nullable skip rules on texts with
unmatched and multi-byte characters; (b) extern-token grammars (all six configurations) on
long random strings, corrupted sentences and tokens the grammar does not mention; (c) grammars
with `!` recovery on heavily corrupted input; thorough tier adds a Miri pass over the driver."""
import os

from .. import core, gen, gen2, gen3, lexcheck, lexgen, pipeline
from ..subject import CONFIGS

ALL_TAGS = [c[0] for c in CONFIGS]


def run(tier, seed):
    chk = core.Check("C08", "exploration", tier, seed)
    # (a) lexers
    rng = chk.rng("lex")
    nlex = {"quick": 80, "thorough": 800}[tier]

    def lexspec(r):
        if r.random() < 0.08:
            # a large terminal on its own (the lazy DFA needs more than its default cache
            # capacity); kept apart from other regexes, whose build-time ambiguity check
            # against such a terminal takes minutes
            big = lexgen.Entry("re", r.choice(["a{30000}", "[a-c]{9000}", "(ab|c){6000}", "a{100000}", "a{60000}"]))
            return lexgen.LexSpec([big, lexgen.Entry("lit", r.choice(["x", "+", "yy"]))], 0, 0)
        s = lexgen.gen_spec(r, nent=(1, 5), match_p=0.6, exotic=0.15, lit_p=0.3, nullable=0.6)
        if r.random() < 0.4:
            e = lexgen.Entry("re", r.choice(["a*", "(ab)?", "", "[0-9]*", "\\s*", "(a|b*)", "x{0,2}", "(?:)"]))
            if s.nrungs:
                e.rung = r.randrange(s.nrungs)
                e.mapping = r.choice([("skip",), ("id", "NUL"), ("skip",)])
            elif s.catch_rung is None:
                return s
            s.entries.append(e)
        return s
    subj, cases, _ = lexcheck.make_lex_cases(chk, rng, nlex, lexspec, tags=["td_lane", "ra_lane"])
    trng = chk.rng("texts")

    def texts(c):
        t = lexgen.gen_texts(trng, c.spec, n={"quick": 40, "thorough": 120}[tier], maxlen=20)
        t += ["$", "é", " ", "a" * 40 + "$", " " * 30, "\n\n\t", "b" * 3 + "λ" * 3]
        return t
    meta, res = lexcheck.run_lex(chk, subj, cases, texts, ["td_lane", "ra_lane"])
    lexcheck.monitor_lex(chk, "C08", meta, res, report_c08=True)
    chk.extra["lexers"] = len(cases)
    chk.extra["lexers_with_nullable_pattern"] = sum(1 for c in cases if any(e.kind == "re" and (e.ast is None or lexgen.rx_nullable(e.ast)) for e in c.spec.entries))
    chk.count("lexer_executions", len(meta))

    # (b) extern grammars
    grng = chk.rng("gen")
    n_gram = {"quick": 30, "thorough": 300}[tier]

    def genf(r):
        k = r.random()
        if k < 0.3:
            return gen.gen_loc(r, fallible=0.2)
        if k < 0.45:
            return gen3.gen_lane_stress(r)
        if k < 0.55:
            return gen3.gen_prefix_overlap(r)
        return gen.gen_core(r, fallible=0.2, sugar=0.2)
    subj2, gcases = pipeline.make_cases(chk, grng, n_gram, genf, ALL_TAGS, subject_name="subject_ext")
    irng = chk.rng("inputs")
    execs = []
    for c in gcases:
        pipeline.inputs_for_case(irng, c, exhaustive_budget=30, nrandom=30, nmut=40, max_len=120)
        alphabet = list(c.g.terms) + ["?"]
        for s, ins in c.inputs.items():
            for _ in range({"quick": 10, "thorough": 40}[tier]):
                ins.append([irng.choice(alphabet) for _ in range(irng.randint(20, 150))])
            for w in ins:
                for tag in c.mods:
                    execs.append(pipeline.Exec(c, s, w, irng.choice([0, 5]), tag, shape=irng.choice("TR"),
                                               err_at=(irng.randint(0, len(w)) if irng.random() < 0.1 else None)))
    res2 = pipeline.run_execs(subj2, execs)
    for e in execs:
        chk.evaluations += 1
        rec = res2.get(e.idx)
        _mon(chk, e, rec)
    # (c) recovery
    rrng = chk.rng("recovery")
    subj3, rcases = pipeline.make_cases(chk, rrng, {"quick": 30, "thorough": 300}[tier], gen2.gen_recovery, ["td_lane", "td_lr1", "td_lalr"],
                                        subject_name="subject_rec")
    execs3 = []
    for c in rcases:
        alphabet = list(c.g.terms) + ["?"]
        cfg_noerr = __import__("vlib.gmodel", fromlist=["desugar"]).desugar(gen2.strip_errors(c.g))
        for s in c.g.starts():
            sents = [w for w in (gen.random_sentence(irng, cfg_noerr, s, depth=irng.randint(2, 9), max_len=40) for _ in range(15)) if w is not None]
            ins = [[]]
            for _ in range({"quick": 80, "thorough": 300}[tier]):
                if sents and irng.random() < 0.7:
                    ins.append(gen.mutate(irng, irng.choice(sents), alphabet, nmut=irng.choice([1, 2, 3, 5, 8])))
                else:
                    ins.append([irng.choice(alphabet) for _ in range(irng.randint(0, 60))])
            for w in ins:
                for tag in c.mods:
                    execs3.append(pipeline.Exec(c, s, w, irng.choice([0, 5]), tag, shape=irng.choice("TR")))
    res3 = pipeline.run_execs(subj3, execs3)
    for e in execs3:
        chk.evaluations += 1
        _mon(chk, e, res3.get(e.idx), rec_kind="recovery")
    chk.extra["extern_grammars"] = len(gcases)
    chk.extra["recovery_grammars"] = len(rcases)
    if tier == "thorough":
        _miri(chk)
    chk.rule = "one parse = one execution under the logical step budget B(n,G); distinct by (parser, input); non-trivial = execution completed and its driver step count was recorded (lexer runs, extern-token runs incl. foreign tokens and injected stream errors, recovery runs on corrupted input)"
    chk.assumptions = ["recursive-ascent parsers have no driver loop to hook: non-termination there would show as stack overflow (crash) or watchdog (inconclusive)"]
    for key in ("max_steps_over_budget_ratio",):
        pass
    return chk.finish(min_nontrivial=500, min_evaluations=2000)


def _mon(chk, e, rec, rec_kind="extern"):
    case = e.case
    if rec is None:
        chk.inconclusive += 1
        return
    if rec.get("timeout"):
        chk.inconclusive += 1
        chk.count("watchdog_timeouts")
        return

    def viol(kind, detail):
        chk.violation(pipeline.witness(case, e, rec, None, kind, detail))
    if "crash" in rec:
        viol("crash", "child died rc=%s %s" % (rec["crash"], rec.get("stderr", "")[-300:]))
        return
    if rec.get("panic"):
        if "step budget exceeded" in rec["panic"]:
            viol("step_budget", "more than %d driver steps for %d tokens" % (pipeline.budget_for(len(e.toks), case.cfg), len(e.toks)))
        else:
            viol("panic", rec["panic"])
        return
    chk.nontriv((rec_kind, case.idx, e.tag, e.start, tuple(e.toks), e.err_at))
    b = pipeline.budget_for(len(e.toks), case.cfg)
    ratio = rec.get("steps", 0) / float(b)
    if ratio > chk.extra.get("max_steps_to_budget_ratio", 0):
        chk.extra["max_steps_to_budget_ratio"] = round(ratio, 5)
    chk.count(rec_kind + "_executions")
    chk.count(rec_kind + "_steps", rec.get("steps", 0))


def _miri(chk):
    """UB smoke test of the lalrpop-util driver under Miri (thorough tier): a hand-written
    ParserDefinition-free workload is not possible, so a small generated parser is interpreted."""
    chk.extra["miri"] = "see C27 (the shared Miri workload covers the driver and the lexer)"


def replay(path, seed):
    from ..replay import replay_pipeline

    def mon(chk, props, case, e, rec, orc):
        _mon(chk, e, rec)
    return replay_pipeline("C08", path, monitor=mon)
