"""Pipeline A (DESIGN section 1): generated grammars -> real lalrpop CLI (all configurations)
-> rustc-compiled subject crate -> executions recorded as JSON events -> offline monitors with
independent oracles (Earley + reference evaluator).  Serves C01 C02 C04 C05 C07 (and, with
other profiles, C06 C08 C12 C13 C14 C16 C17)."""
import json
import time

from . import core, earley, gen, gmodel, subject
from .subject import CONFIGS, wl_line


class Case:
    def __init__(self, idx, g, text, cfg):
        self.idx = idx
        self.g = g
        self.text = text          # grammar text without config attributes
        self.cfg = cfg            # reference CFG (oracle side)
        self.mods = {}            # config tag -> module name (accepted + compiled)
        self.status = {}          # config tag -> cli status
        self.inputs = {}          # start -> list of token-name lists
        self.exh_len = {}


def budget_for(n, cfg):
    return 64 * (n + 2) ** 2 * (len(cfg.prods) + len(cfg.terms) + 2)


def tok_triples(names, terms_index, gap, foreign_kind=None):
    out = []
    for i, t in enumerate(names):
        k = terms_index.get(t, foreign_kind)
        out.append((k, gap + 10 * i + 3, gap + 10 * i + 7))
    return out


def make_cases(chk, rng, n_accept, gen_fn, configs, max_attempts=None, name_prefix="g", text_fn=None,
               want=None, variants_fn=None, subject_name="subject"):
    """Generate grammars until n_accept are accepted by the real CLI under the first
    configuration; then generate all configurations.  Returns (subject, cases)."""
    subj = subject.Subject(chk.work, subject_name)
    cases = []
    attempts = 0
    max_attempts = max_attempts or n_accept * 12
    t0 = time.time()
    batch = max(16, core.NCPU * 2)
    text_fn = text_fn or gmodel.grammar_text
    while len(cases) < n_accept and attempts < max_attempts:
        cands = []
        for _ in range(batch):
            g = gen_fn(rng)
            attempts += 1
            try:
                cfg = gmodel.desugar(g)
            except Exception as e:  # generator produced something the reference cannot express
                chk.count("generator_rejects")
                continue
            if want and not want(g, cfg):
                chk.count("generator_filtered")
                continue
            cands.append((g, text_fn(g), cfg))
        specs = []
        for j, (g, text, cfg) in enumerate(cands):
            specs.append(dict(name="%s%dp_%s" % (name_prefix, attempts - batch + j, configs[0]), text=text,
                              cfg=configs[0], starts=g.starts()))
        mods = subj.add_many(specs)
        for (g, text, cfg), m in zip(cands, mods):
            chk.count("grammars_generated")
            chk.count("cli_" + m.status)
            if m.status in ("panic", "signal"):
                chk.count("cli_panics_seen")
            if m.status != "ok":
                # probe module is not compiled
                del subj.modules[m.name]
                if m.status == "error":
                    if "onflict" in m.stderr or "mbigu" in m.stderr:
                        chk.count("rejected_conflict")
                    else:
                        chk.count("rejected_other")
                        chk.extra.setdefault("rejected_other_samples", [])
                        if len(chk.extra["rejected_other_samples"]) < 5:
                            chk.extra["rejected_other_samples"].append(m.stderr.strip()[-300:])
                continue
            del subj.modules[m.name]
            if len(cases) >= n_accept:
                continue
            c = Case(len(cases), g, text, cfg)
            cases.append(c)
    # variants (e.g. the same grammar with #[inline] marks, or its reference expansion)
    allc = list(cases)
    if variants_fn:
        for c in cases:
            c.variants = []
            for vk, (vg, vtext, vcfg) in enumerate(variants_fn(c)):
                vc = Case("%sv%d" % (c.idx, vk), vg, vtext, vcfg)
                vc.base = c
                c.variants.append(vc)
                allc.append(vc)
    # all configurations for accepted grammars
    specs = []
    for c in allc:
        for tag in configs:
            specs.append(dict(name="g%s_%s" % (c.idx, tag), text=c.text, cfg=tag, starts=c.g.starts()))
    mods = subj.add_many(specs)
    k = 0
    for c in allc:
        for tag in configs:
            m = mods[k]
            k += 1
            c.status[tag] = m.status
            c.stderr = getattr(c, "stderr", {})
            if m.status != "ok":
                c.stderr[tag] = m.stderr[-1500:]
            chk.count("config_%s_%s" % (tag, m.status) if not hasattr(c, "base") else "variant_%s_%s" % (tag, m.status))
    core.log("[pipeline] %d grammars accepted of %d generated (%.1fs)" % (len(cases), attempts, time.time() - t0))
    ok = subj.build()
    okset = set(ok)
    for c in allc:
        for tag in configs:
            n = "g%s_%s" % (c.idx, tag)
            if n in okset:
                c.mods[tag] = n
    return subj, cases


class Exec:
    __slots__ = ("case", "start", "toks", "gap", "tag", "shape", "err_at", "fails", "idx", "foreign")

    def __init__(self, case, start, toks, gap, tag, shape="T", err_at=None, fails=None):
        self.case = case
        self.start = start
        self.toks = toks
        self.gap = gap
        self.tag = tag
        self.shape = shape
        self.err_at = err_at
        self.fails = fails
        self.idx = None


def run_execs(subj, execs):
    lines = []
    for i, e in enumerate(execs):
        e.idx = i
        g = e.case.g
        tix = {t: k for k, t in enumerate(g.terms)}
        tr = tok_triples(e.toks, tix, e.gap, foreign_kind=len(g.terms))
        lines.append(wl_line(i, e.case.mods[e.tag], e.start, toks=tr, shape=e.shape,
                             budget=budget_for(len(e.toks), e.case.cfg), err_at=e.err_at, fails=e.fails))
    t0 = time.time()
    res = subj.run(lines)
    core.log("[pipeline] %d executions in %.1fs" % (len(lines), time.time() - t0))
    return res


# ------------------------------------------------------------------------------------------
# oracle for one (case, start, tokens): computed once, shared by all configurations


class Oracle:
    def __init__(self, case, start, toks, gap, fails=None):
        cfg = case.cfg
        self.toks = toks
        self.n = len(toks)
        self.gap = gap
        ch = earley.Chart(cfg, start, toks)
        self.chart = ch
        self.accepted = ch.accepted()
        self.kinds = [case.g.terms.index(t) if t in case.g.terms else len(case.g.terms) for t in toks]
        self.spans = [(gap + 10 * i + 3, gap + 10 * i + 7) for i in range(self.n)]
        self.ambiguous = False
        if self.accepted:
            trees = ch.trees(2)
            self.ambiguous = len(trees) != 1
            self.tree = trees[0] if trees else None
            if self.tree is not None:
                self.eval = earley.evaluate(self.tree, self.kinds, fails or (), spans=self.spans,
                                            inline_nts=getattr(cfg, "inline_nts", ()))
            self.k = None
        else:
            self.k = ch.dead_at          # 1-based index of the offending token, or None (EOF)
            at = (self.k - 1) if self.k else self.n
            self.next, self.eof_ok = ch.next_terminals(at)

    def expected_error(self):
        if self.k:
            i = self.k - 1
            return {"err": "UnrecognizedToken", "tok": [["L", self.spans[i][0]], ["T", self.kinds[i], i], ["L", self.spans[i][1]]]}
        loc = self.spans[-1][1] if self.n else 0
        return {"err": "UnrecognizedEof", "loc": ["L", loc]}


def parse_events(ev):
    out = []
    for x in ev.split():
        out.append((x[0], int(x[1:])))
    return out


def strip_expected(r):
    if isinstance(r, dict) and "expected" in r:
        r = dict(r)
        del r["expected"]
    return r


def term_of_expected(s):
    """display form of a quoted-literal terminal -> terminal name"""
    if len(s) >= 2 and s[0] == '"' and s[-1] == '"':
        return s[1:-1]
    return None


def _dump_model(g):
    from .replay import dump_model
    return dump_model(g)


def witness(case, e, rec, orc, kind, detail):
    return {
        "kind": kind,
        "sig": "%s/%s" % (kind, e.tag),
        "summary": "%s config=%s start=%s input=%s: %s" % (kind, e.tag, e.start, " ".join(e.toks), detail),
        "grammar": subject.apply_config(case.text, e.tag),
        "text": case.text,
        "model": _dump_model(case.g),
        "env": subject.config_env(e.tag),
        "config": e.tag,
        "start": e.start,
        "input": e.toks,
        "gap": e.gap,
        "shape": e.shape,
        "err_at": e.err_at,
        "fails": e.fails,
        "observed": rec,
        "expected": detail,
        "reference_cfg": case.cfg.text(),
    }


def monitor_basic(chk, props, case, e, rec, orc, known_matcher=None):
    """Monitors for C01 C02 C04 C05 (and the no-panic / step-budget part of C08) on one
    execution record.  `props` = set of property ids whose violations are reported by this run."""
    P = chk.prop
    canonical = e.tag.endswith("_lr1")

    def viol(prop, kind, detail):
        if prop in props:
            chk.violation(witness(case, e, rec, orc, kind, detail), known_matcher)

    if rec is None:
        chk.inconclusive += 1
        chk.count("missing_record")
        return
    if rec.get("timeout"):
        chk.inconclusive += 1
        chk.count("watchdog_timeouts")
        return
    if "crash" in rec:
        viol("C08", "crash", "child died rc=%s %s" % (rec["crash"], rec.get("stderr", "")[-300:]))
        chk.count("crashes")
        return
    if rec.get("panic"):
        if "step budget exceeded" in rec["panic"]:
            viol("C08", "step_budget", "more than %d driver steps" % budget_for(len(e.toks), case.cfg))
        else:
            viol("C08", "panic", rec["panic"])
        chk.count("panics")
        return
    r = rec["r"]
    evs = parse_events(rec["ev"])
    pulls = [x for x in evs if x[0] == "p"]
    nones = [x for x in evs if x[0] == "n"]
    acts = [x[1] for x in evs if x[0] == "a"]
    if len(nones) > 1:
        chk.count("polled_after_none")
    got_ok = "ok" in r
    if orc.accepted:
        chk.count("oracle_accept")
        if not got_ok:
            viol("C01", "reject_sentence", "oracle: in L(%s); parser returned %s" % (e.start, json.dumps(r)))
            return
        if orc.ambiguous or orc.tree is None:
            chk.count("oracle_ambiguous_tree")
            chk.inconclusive += 1
            return
        st, val, exp_events = orc.eval
        if st == "ok":
            if earley.has_wildcard(val):
                chk.count("values_with_unspecified_location")
            if not earley.values_match(val, r["ok"]):
                viol("C02", "wrong_value", {"expected_value": val, "got": r["ok"]})
            if acts != exp_events:
                viol("C02", "wrong_action_order", {"expected_events": exp_events, "got": acts})
            if len(pulls) != orc.n or [x[1] for x in pulls] != list(range(orc.n)):
                viol("C02", "token_pull_mismatch", {"pulls": pulls, "n": orc.n})
        return
    # oracle: rejected
    chk.count("oracle_reject")
    if got_ok:
        viol("C01", "accept_nonsentence", "oracle: not in L(%s); parser returned Ok" % e.start)
        return
    exp = orc.expected_error()
    if r.get("err") == "ExtraToken":
        viol("C04", "extra_token", "ExtraToken returned: %s" % json.dumps(r))
        return
    if strip_expected(r) != exp:
        viol("C04", "wrong_error", {"expected_error": exp, "got": strip_expected(r)})
    else:
        want_pulls = orc.k if orc.k else orc.n
        if len(pulls) != want_pulls:
            viol("C04", "read_beyond_error", {"pulls": len(pulls), "expected_pulls": want_pulls})
        if orc.k and nones:
            viol("C04", "read_beyond_error", {"polled_end_of_input_after_error_token": True})
    # expected lists
    if "expected" in r:
        names = r["expected"]
        if len(set(names)) != len(names):
            viol("C05", "expected_duplicate", {"expected_list": names})
        listed = set()
        for s in names:
            t = term_of_expected(s)
            if t is None or t not in case.g.terms:
                viol("C05", "expected_unknown_name", {"name": s, "expected_list": names})
            else:
                listed.add(t)
        valid = set(orc.next)
        surplus = sorted(listed - valid)
        missing = sorted(valid - listed)
        if surplus:
            viol("C05", "expected_overbroad", {"surplus": surplus, "listed": sorted(listed), "valid": sorted(valid)})
        if canonical and missing:
            viol("C05", "expected_incomplete", {"missing": missing, "listed": sorted(listed), "valid": sorted(valid)})
        if missing and not canonical:
            chk.count("noncanonical_incomplete_expected")


def inputs_for_case(rng, case, exhaustive_budget=300, nrandom=25, nmut=40, max_len=40, foreign=True):
    alphabet = list(case.g.terms)
    for s in case.g.starts():
        ins, L = gen.inputs_for(rng, case.cfg, s, alphabet, exhaustive_budget, nrandom, nmut, max_len)
        if getattr(case.g, "finite", False):
            from . import gen3
            sents = gen3.all_sentences(case.cfg, s)
            if sents:
                have = {tuple(w) for w in ins}
                for w in sents:
                    if tuple(w) not in have:
                        ins.append(w)
                for w in sents:
                    m = gen.mutate(rng, w, alphabet, 1)
                    if tuple(m) not in have:
                        have.add(tuple(m))
                        ins.append(m)
        if foreign:
            # a few inputs containing a token kind the grammar does not mention
            base = [w for w in ins if w][:40]
            for w in rng.sample(base, min(4, len(base))):
                w2 = list(w)
                w2[rng.randrange(len(w2))] = "?"
                ins.append(w2)
            # ... and after prefixes of longer inputs (the parser is then deep in some state whose
            # lookahead sets may be merged ones)
            longer = [w for w in ins if len(w) >= 2 and "?" not in w]
            seen_f = set()
            for w in rng.sample(longer, min(12, len(longer))):
                k = rng.randint(1, len(w))
                w2 = tuple(w[:k]) + ("?",)
                if w2 not in seen_f:
                    seen_f.add(w2)
                    ins.append(list(w2))
        case.inputs[s] = ins
        case.exh_len[s] = L
