"""Token-level printer for model grammars: the grammar as a list of lexical tokens, so that
layout variants (whitespace / comments between tokens) can be produced without a parser for the
surface syntax.  Forms that LALRPOP's tokenizer defines by adjacency (`Name<`, `=>?`, `=>@L`,
`r"`, `#![`) are single tokens here."""
from . import gmodel

GAPS = [" ", " ", "\n", "\t", "  ", "\n\n", " // c\n", " /* c */ ", "/* a /* nested */ b */", "\r\n", " //\n", "/**/", " /* { ( */ ", " // } ;\n"]


def sym_tokens(s):
    if s.k == "t":
        return [gmodel.term_text(s.name)]
    if s.k == "n":
        return [s.name]
    if s.k == "rep":
        return sym_tokens(s.inner) + [s.op]
    if s.k == "grp":
        out = ["("]
        for it in s.items:
            out += item_tokens(it)
        return out + [")"]
    if s.k == "mac":
        out = [s.name + "<"]
        for i, a in enumerate(s.args):
            if i:
                out.append(",")
            out += sym_tokens(a)
        return out + [">"]
    if s.k == "L":
        return ["@L"]
    if s.k == "R":
        return ["@R"]
    if s.k == "err":
        return ["!"]
    raise ValueError(s.k)


def pat_tokens(p):
    if isinstance(p, str):
        return [p]
    out = ["("]
    for i, x in enumerate(p):
        if i:
            out.append(",")
        out += pat_tokens(x)
    return out + [")"]


def item_tokens(it):
    s = sym_tokens(it.sym)
    b = it.bind
    if b is None:
        return s
    if b[0] == "sel":
        return ["<"] + s + [">"]
    if b[0] == "name":
        return ["<"] + (["mut"] if b[2] else []) + [b[1], ":"] + s + [">"]
    return ["<"] + pat_tokens(b[1]) + [":"] + s + [">"]


def attr_tokens(a):
    # an attribute string like #[cfg(feature = "x")] is kept whole (its interior is not perturbed)
    return [a]


def grammar_tokens(g, config_attrs=""):
    t = ["use", "crate::support::*", ";"]
    for a in config_attrs.split():
        t.append(a)
    t += ["grammar", ";", "extern", "{", "type", "Location", "=", g.loc_type, ";", "type", "Error", "=", "UErr", ";", "enum", "Tok", "{"]
    for i, term in enumerate(g.terms):
        t += [gmodel.term_text(term), "=>", "Tok { kind: K%d, .. }" % i, ","]
    t += ["}", "}"]
    for nt in g.nts:
        for a in nt.attrs:
            t += attr_tokens(a)
        if nt.inline:
            t.append("#[inline]")
        if nt.pub:
            t.append("pub")
        if nt.params:
            t.append(nt.name + "<")
            for i, p in enumerate(nt.params):
                if i:
                    t.append(",")
                t.append(p)
            t.append(">")
        else:
            t.append(nt.name)
        if nt.ty:
            t += [":", nt.ty]
        t += ["=", "{"]
        for alt in nt.alts:
            for a in alt.attrs:
                t += attr_tokens(a)
            if alt.prec:
                if alt.prec[0] is not None:
                    t.append('#[precedence(level="%d")]' % alt.prec[0])
                if alt.prec[1] is not None:
                    t.append('#[assoc(side="%s")]' % alt.prec[1])
            for it in alt.items:
                t += item_tokens(it)
            if alt.cond:
                t += ["if", alt.cond[0], alt.cond[1], '"%s"' % alt.cond[2]]
            act = gmodel.action_text(alt).strip()
            if not alt.items and not act:
                act = "=> ()"
            if act == "=> ()":
                # LALRPOP emits an empty body for the action text `()` and the text itself
                # otherwise; comments next to it would change tokens (not behaviour): keep
                # `=> (),` as one lexical unit so that variants stay byte-comparable
                t.append("=> (),")
                continue
            if act:
                # `=>` / `=>?` then the code as one opaque token
                if act.startswith("=>?"):
                    t += ["=>?", act[3:].strip()]
                else:
                    t += ["=>", act[2:].strip()]
            t.append(",")
        t += ["}", ";"]
    return t


def render(tokens, rng=None):
    """canonical rendering (rng None: single spaces) or a random layout variant"""
    out = []
    for i, tok in enumerate(tokens):
        out.append(tok)
        if i + 1 < len(tokens):
            out.append(" " if rng is None else rng.choice(GAPS))
    s = "".join(out)
    if rng is not None and rng.random() < 0.5:
        s = rng.choice(GAPS) + s + rng.choice(GAPS)
    return s
