"""Shared plumbing: seeds, verdicts, evidence, known findings, subprocesses, building /repo.

Verdicts are three-valued (see DESIGN.md section 0):
  exit 0  held on what was observed (KNOWN-FINDING lines allowed)
  exit 1  VIOLATION property=<id> replay=<path>
  exit 2  harness failure (could not build the harness / subject infrastructure)
  exit 3  INCONCLUSIVE (run observed less than its stated minimum)
"""
import hashlib
import json
import os
import random
import resource
import shutil
import signal
import subprocess
import sys
import time
from concurrent.futures import ProcessPoolExecutor, ThreadPoolExecutor

VERIF = os.path.dirname(os.path.dirname(os.path.abspath(__file__)))
REPO = os.environ.get("VERIF_REPO", "/repo")
NCPU = int(os.environ.get("VERIF_JOBS", str(os.cpu_count() or 4)))
WORK = os.environ.get("VERIF_WORK", os.path.join(VERIF, "work"))
TARGET = os.path.join(VERIF, "target")
EVIDENCE = os.environ.get("VERIF_EVIDENCE", os.path.join(VERIF, "evidence"))
REPLAY = os.path.join(WORK, "replay")

BASE_ENV = dict(os.environ)
BASE_ENV.update({
    "CARGO_NET_OFFLINE": "true",
    "RUST_BACKTRACE": "0",
    "CARGO_TERM_COLOR": "never",
})
# LALRPOP_LANE_TABLE is a per-child setting; never inherit it from the caller.
BASE_ENV.pop("LALRPOP_LANE_TABLE", None)
for k in list(BASE_ENV):
    if k.startswith("CARGO_FEATURE_"):
        BASE_ENV.pop(k)


class HarnessError(Exception):
    pass


def repo_tag():
    """Separate cargo target dirs per subject tree so VERIF_REPO overrides do not thrash."""
    if REPO == "/repo":
        return "repo"
    return "alt-" + hashlib.sha1(REPO.encode()).hexdigest()[:10]


def seed_for(prop, seed):
    h = hashlib.sha256(("%s:%d" % (prop, seed)).encode()).digest()
    return int.from_bytes(h[:8], "big")


def rng_for(prop, seed, salt=""):
    return random.Random(seed_for(prop + "/" + salt, seed))


def sha(s):
    if isinstance(s, str):
        s = s.encode()
    return hashlib.sha256(s).hexdigest()


def log(*a):
    print(*a, file=sys.stderr, flush=True)


def ensure_dir(p, wipe=False):
    if wipe and os.path.exists(p):
        shutil.rmtree(p, ignore_errors=True)
    os.makedirs(p, exist_ok=True)
    return p


def run(cmd, timeout=600, env=None, cwd=None, stdin=None, rlimit_as=None, rlimit_fsize=None,
        ignore_xfsz=False, rlimit_stack=None):
    """Run a child; returns (rc, stdout, stderr, timed_out).  rc<0 = killed by signal -rc."""
    e = dict(BASE_ENV)
    if env:
        for k, v in env.items():
            if v is None:
                e.pop(k, None)
            else:
                e[k] = v

    def pre():
        os.setsid()
        if rlimit_as:
            resource.setrlimit(resource.RLIMIT_AS, (rlimit_as, rlimit_as))
        if rlimit_stack:
            resource.setrlimit(resource.RLIMIT_STACK, (rlimit_stack, rlimit_stack))
        if rlimit_fsize is not None:
            resource.setrlimit(resource.RLIMIT_FSIZE, (rlimit_fsize, rlimit_fsize))
        if ignore_xfsz:
            signal.signal(signal.SIGXFSZ, signal.SIG_IGN)

    if rlimit_fsize is None and not ignore_xfsz and not rlimit_stack:
        # fast path (vfork): no preexec_fn; the address-space limit is applied right after spawn
        p = subprocess.Popen(cmd, stdin=subprocess.PIPE if stdin is not None else subprocess.DEVNULL,
                             stdout=subprocess.PIPE, stderr=subprocess.PIPE, env=e, cwd=cwd,
                             start_new_session=True)
        if rlimit_as:
            try:
                resource.prlimit(p.pid, resource.RLIMIT_AS, (rlimit_as, rlimit_as))
            except (ProcessLookupError, PermissionError, ValueError):
                pass
    else:
        p = subprocess.Popen(cmd, stdin=subprocess.PIPE if stdin is not None else subprocess.DEVNULL,
                             stdout=subprocess.PIPE, stderr=subprocess.PIPE, env=e, cwd=cwd,
                             preexec_fn=pre)
    try:
        out, err = p.communicate(stdin, timeout=timeout)
        return p.returncode, out, err, False
    except subprocess.TimeoutExpired:
        try:
            os.killpg(p.pid, signal.SIGKILL)
        except ProcessLookupError:
            pass
        out, err = p.communicate()
        return p.returncode, out, err, True


def cargo(args, cwd, target_dir, timeout=3600, env=None, toolchain=None):
    cmd = ["cargo"]
    if toolchain:
        cmd.append("+" + toolchain)
    cmd += args
    e = {"CARGO_TARGET_DIR": target_dir}
    if env:
        e.update(env)
    rc, out, err, to = run(cmd, timeout=timeout, env=e, cwd=cwd)
    return rc, out.decode(errors="replace"), err.decode(errors="replace"), to


_lalrpop_bin = None


def build_lalrpop(release=False):
    """Build the lalrpop binary from REPO's current working tree (cargo fingerprints make this a
    no-op when nothing changed)."""
    global _lalrpop_bin
    if _lalrpop_bin and not release:
        return _lalrpop_bin
    td = os.path.join(TARGET, repo_tag())
    args = ["build", "--offline", "-p", "lalrpop", "--bin", "lalrpop"]
    if release:
        args.append("--release")
    t0 = time.time()
    rc, out, err, to = cargo(args, REPO, td)
    if rc != 0:
        raise HarnessError("cannot build lalrpop from %s:\n%s" % (REPO, err[-4000:]))
    b = os.path.join(td, "release" if release else "debug", "lalrpop")
    if not os.path.exists(b):
        raise HarnessError("lalrpop binary missing after build: " + b)
    log("[build] lalrpop (%s) ready in %.1fs" % ("release" if release else "debug", time.time() - t0))
    if not release:
        _lalrpop_bin = b
    return b


def pmap(fn, items, jobs=None, chunksize=1):
    jobs = jobs or NCPU
    if jobs <= 1 or len(items) <= 1:
        return [fn(x) for x in items]
    with ProcessPoolExecutor(max_workers=jobs) as ex:
        return list(ex.map(fn, items, chunksize=chunksize))


def tmap(fn, items, jobs=None):
    jobs = jobs or NCPU
    if jobs <= 1 or len(items) <= 1:
        return [fn(x) for x in items]
    with ThreadPoolExecutor(max_workers=jobs) as ex:
        return list(ex.map(fn, items))


# ----------------------------------------------------------------------------------------------
# known findings


def load_known_findings():
    p = os.path.join(VERIF, "known_findings.json")
    if not os.path.exists(p):
        return []
    with open(p) as f:
        d = json.load(f)
    return d.get("known", [])


class Check:
    """One run of one property's check: collects observations, violations, evidence."""

    def __init__(self, prop, level, tier, seed):
        self.prop = prop
        self.level = level
        self.tier = tier
        self.seed = seed
        self.t0 = time.time()
        self.violations = []          # unlisted violations (dicts)
        self.known_hits = {}          # finding id -> count
        self.known_first = {}         # finding id -> first witness
        self.inconclusive = 0
        self.evaluations = 0
        self.nontrivial = set()
        self.samples = []
        self.counters = {}
        self.rule = ""
        self.assumptions = []
        self.exhaustive = None
        self.extra = {}
        self.known = [k for k in load_known_findings() if k.get("property") == prop]
        self.work = ensure_dir(os.path.join(WORK, prop), wipe=True)
        ensure_dir(REPLAY)
        self.max_violation_files = 20

    def rng(self, salt=""):
        return rng_for(self.prop, self.seed, salt)

    def count(self, key, n=1):
        self.counters[key] = self.counters.get(key, 0) + n

    def sample(self, s, limit=6):
        if len(self.samples) < limit:
            self.samples.append(s)

    def nontriv(self, key):
        self.nontrivial.add(key if isinstance(key, (str, int)) else sha(json.dumps(key, sort_keys=True, default=str))[:16])

    def violation(self, witness, finding_matcher=None):
        """witness: dict with at least 'kind'.  finding_matcher(known_entry, witness)->bool lets a
        check map a witness to a known finding signature."""
        for k in self.known:
            if finding_matcher and finding_matcher(k, witness):
                kid = k["id"]
                self.known_hits[kid] = self.known_hits.get(kid, 0) + 1
                self.known_first.setdefault(kid, witness)
                return "known"
        self.violations.append(witness)
        return "violation"

    def finish(self, min_nontrivial=2, min_evaluations=1):
        wall = time.time() - self.t0
        ensure_dir(EVIDENCE)
        cov = {
            "evaluations": int(self.evaluations),
            "distinct_nontrivial": len(self.nontrivial),
            "rule": self.rule,
            "samples": self.samples if self.samples else ["<no sample recorded>"],
            "counters": self.counters,
            "inconclusive_cases": self.inconclusive,
            "known_findings_matched": self.known_hits,
        }
        if self.exhaustive is not None:
            cov["exhaustive"] = bool(self.exhaustive)
        cov.update(self.extra)
        ev = {
            "property_id": self.prop,
            "tier": self.tier,
            "seed": int(self.seed),
            "level": self.level,
            "coverage": cov,
            "assumptions": self.assumptions,
            "wall_s": round(wall, 2),
            "violations": len(self.violations),
            "repo": REPO,
        }
        with open(os.path.join(EVIDENCE, self.prop + ".json"), "w") as f:
            json.dump(ev, f, indent=1, default=str)
            f.write("\n")
        for kid, n in sorted(self.known_hits.items()):
            k = [x for x in self.known if x["id"] == kid][0]
            print("KNOWN-FINDING: property=%s %s: %s (matched %d times this run)" % (
                self.prop, kid, k.get("what", ""), n), flush=True)
        for k in self.known:
            if k["id"] not in self.known_hits:
                log("NOTE: property=%s known finding %s did not reproduce in this run (probe missing or defect repaired?)" % (self.prop, k["id"]))
        if self.violations:
            seen = set()
            n = 0
            for w in self.violations:
                sig = w.get("kind", "") + ":" + str(w.get("sig", ""))
                if sig in seen and n >= 3:
                    continue
                seen.add(sig)
                if n >= self.max_violation_files:
                    break
                path = os.path.join(REPLAY, "%s-%s-%d-%d.json" % (self.prop, self.tier, self.seed, n))
                with open(path, "w") as f:
                    json.dump({"property": self.prop, "seed": self.seed, "tier": self.tier,
                               "witness": w}, f, indent=1, default=str)
                print("VIOLATION property=%s replay=%s" % (self.prop, path), flush=True)
                log("  kind=%s %s" % (w.get("kind"), str(w.get("summary", ""))[:400]))
                n += 1
            log("[%s] %d violation(s) (%d reported), %d evaluations, %.1fs" % (
                self.prop, len(self.violations), n, self.evaluations, wall))
            return 1
        if self.evaluations < min_evaluations or len(self.nontrivial) < min_nontrivial:
            print("INCONCLUSIVE property=%s observed evaluations=%d distinct_nontrivial=%d (minimum %d/%d)" % (
                self.prop, self.evaluations, len(self.nontrivial), min_evaluations, min_nontrivial), flush=True)
            return 3
        log("[%s] held on %d evaluations, %d distinct non-trivial, %d inconclusive, %.1fs; counters=%s" % (
            self.prop, self.evaluations, len(self.nontrivial), self.inconclusive, wall,
            json.dumps(self.counters, sort_keys=True)))
        return 0
