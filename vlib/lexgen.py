"""Generators for built-in-lexer grammars (C08a, C09, C10, C11): regex ASTs with a printer and a
sampler, terminal sets with match blocks, the grammar text, and the documented precedence ranks
(DESIGN appendix A.6)."""

ALPHA = "abc01"
EXOTIC = ["é", "λ", "ß", "ü", "Σ", "ж", "€", "𝛼", "é"]
META = list(".^$|()[]{}*+?\\-#'/")


# ------------------------------------------------------------------------------------------
# regex AST:  ('c', ch) ('cls', [(lo,hi)...], neg) ('esc', name) ('dot',) ('seq', [..])
#             ('alt', [..]) ('rep', node, lo, hi|None) ('flag', 'i', node)


def rx_src(n):
    k = n[0]
    if k == "c":
        c = n[1]
        if c in ".^$|()[]{}*+?\\-#/&~" or c == " ":
            return "\\" + c if c != " " else "\\x20"
        if c == '"':
            return "\\x22"
        if c == "\n":
            return "\\n"
        if c == "\t":
            return "\\t"
        return c
    if k == "cls":
        s = "[" + ("^" if n[2] else "")
        for lo, hi in n[1]:
            def e(c):
                if c in "\\]^-[&~":
                    return "\\" + c
                if c == '"':
                    return "\\x22"
                return c
            s += e(lo) if lo == hi else e(lo) + "-" + e(hi)
        return s + "]"
    if k == "esc":
        return n[1]
    if k == "dot":
        return "."
    if k == "seq":
        return "".join(rx_src(x) if x[0] != "alt" else "(" + rx_src(x) + ")" for x in n[1])
    if k == "alt":
        return "|".join(rx_src(x) for x in n[1])
    if k == "rep":
        inner = rx_src(n[1])
        if n[1][0] in ("seq", "alt", "rep", "flag") or (n[1][0] == "c" and len(inner) > 1 and not inner.startswith("\\")):
            inner = "(" + inner + ")"
        lo, hi = n[2], n[3]
        if (lo, hi) == (0, None):
            return inner + "*"
        if (lo, hi) == (1, None):
            return inner + "+"
        if (lo, hi) == (0, 1):
            return inner + "?"
        if hi is None:
            return inner + "{%d,}" % lo
        if lo == hi:
            return inner + "{%d}" % lo
        return inner + "{%d,%d}" % (lo, hi)
    if k == "flag":
        return "(?%s:%s)" % (n[1], rx_src(n[2]))
    raise ValueError(n)


ESC_SAMPLES = {"\\d": "0159٣", "\\w": "ab_09éλ", "\\s": " \t\n", "\\p{L}": "aZéλж", "\\p{Greek}": "λΣ", "\\D": "a-é", "\\W": "-+ €", "\\S": "a0-é",
               "\\p{Lu}": "AZΣ", "\\pN": "09٣", "\\x41": "A", "\\u{e9}": "é", "\\n": "\n", "\\t": "\t"}


def rx_sample(rng, n, ci=False):
    k = n[0]
    if k == "c":
        c = n[1]
        if ci and c.isalpha() and rng.random() < 0.5:
            return c.swapcase()
        return c
    if k == "cls":
        if n[2]:
            for _ in range(20):
                c = rng.choice(list(ALPHA) + EXOTIC[:5] + ["-", "x", "Z", " "])
                if not any(lo <= c <= hi for lo, hi in n[1]) and len(c) == 1:
                    return c
            return "☃"
        lo, hi = rng.choice(n[1])
        c = chr(rng.randint(ord(lo), ord(hi)))
        return c
    if k == "esc":
        return rng.choice(ESC_SAMPLES[n[1]])
    if k == "dot":
        return rng.choice(list(ALPHA) + EXOTIC[:4] + ["-", " "])
    if k == "seq":
        return "".join(rx_sample(rng, x, ci) for x in n[1])
    if k == "alt":
        return rx_sample(rng, rng.choice(n[1]), ci)
    if k == "rep":
        lo, hi = n[2], n[3]
        m = rng.randint(lo, hi if hi is not None else lo + 3)
        return "".join(rx_sample(rng, n[1], ci) for _ in range(m))
    if k == "flag":
        return rx_sample(rng, n[2], ci or "i" in n[1])
    raise ValueError(n)


def rx_nullable(n):
    k = n[0]
    if k in ("c", "cls", "esc", "dot"):
        return False
    if k == "seq":
        return all(rx_nullable(x) for x in n[1])
    if k == "alt":
        return any(rx_nullable(x) for x in n[1])
    if k == "rep":
        return n[2] == 0 or rx_nullable(n[1])
    if k == "flag":
        return rx_nullable(n[2])


def gen_rx(rng, depth=0, exotic=0.1, alphabet=ALPHA, allow_nullable=0.15):
    r = rng.random()
    if depth >= 3 or r < 0.3:
        k = rng.random()
        if k < 0.5:
            c = rng.choice(EXOTIC[:7]) if rng.random() < exotic else rng.choice(alphabet)
            return ("c", c)
        if k < 0.8:
            rs = []
            for _ in range(rng.randint(1, 2)):
                if rng.random() < exotic:
                    lo, hi = rng.choice([("à", "ÿ"), ("α", "ω"), ("а", "я"), ("é", "é")])
                else:
                    lo, hi = rng.choice([("a", "c"), ("a", "b"), ("0", "1"), ("0", "9"), ("a", "z"), ("b", "b"), ("A", "Z")])
                rs.append((lo, hi))
            return ("cls", rs, rng.random() < 0.12)
        if k < 0.93:
            return ("esc", rng.choice(list(ESC_SAMPLES)))
        return ("dot",)
    if r < 0.55:
        return ("seq", [gen_rx(rng, depth + 1, exotic, alphabet) for _ in range(rng.randint(2, 3))])
    if r < 0.7:
        return ("alt", [gen_rx(rng, depth + 1, exotic, alphabet) for _ in range(rng.randint(2, 3))])
    if r < 0.95:
        lo, hi = rng.choice([(1, None), (1, None), (0, None), (0, 1), (2, 3), (1, 2), (2, None), (2, 2), (0, 2)])
        if lo == 0 and rng.random() > allow_nullable * 4:
            lo = 1 if hi is None or hi >= 1 else lo
        return ("rep", gen_rx(rng, depth + 1, exotic, alphabet), lo, hi)
    return ("flag", rng.choice(["i", "i", "s", "x", "U", "is", "-u"]) if False else rng.choice(["i", "i", "s", "is"]), gen_rx(rng, depth + 1, exotic, alphabet))


LITS = ["a", "b", "ab", "abc", "ba", "aa", "0", "01", "if", "+", "++", "(", ")", "==", "=", "-", "->", ".", "..", "*", "a.b", "[a]", "a|b", "\\", "^", "$", "{", "}", "a b",
        "é", "éa", "λ", "ßb", "é", "€", "'", "/", "//", "#", "?", "a+", "(a)", "\t", "x\"y", "\"", "\\d", "\\\\", "###", "\"###", "r\"", "a\\b", "\n", "[", "]", "{2}", "a{2}", "&&", "~", "a-c", "𝛼",
        "\\→", "\"é\"", "é\n", "λ\\", "\té", "a\\é", "ß\"", "€\t€", "\\ж\\"]


def lit_grammar_text(s):
    out = '"'
    for ch in s:
        if ch == "\\":
            out += "\\\\"
        elif ch == '"':
            out += '\\"'
        elif ch == "\n":
            out += "\\n"
        elif ch == "\t":
            out += "\\t"
        elif ch == "\r":
            out += "\\r"
        elif ch == "\0":
            out += "\\0"
        else:
            out += ch
    return out + '"'


def re_grammar_text(src):
    if '"' not in src:
        return 'r"%s"' % src
    h = "#"
    while ('"' + h) in src:
        h += "#"
    return 'r%s"%s"%s' % (h, src, h)


class Entry:
    def __init__(self, kind, src, ast=None):
        self.kind = kind          # 'lit' | 're'
        self.src = src            # literal text / regex source
        self.ast = ast
        self.rung = None          # index of match rung, or None = only used in the grammar
        self.mapping = ("self",)  # ('self',) | ('lit', name) | ('id', NAME) | ('skip',)

    def gtext(self):
        return lit_grammar_text(self.src) if self.kind == "lit" else re_grammar_text(self.src)

    def user_name(self):
        m = self.mapping
        if m[0] == "self":
            return self.gtext()
        if m[0] == "lit":
            return lit_grammar_text(m[1])
        if m[0] == "id":
            return m[1]
        return None


class LexSpec:
    def __init__(self, entries, nrungs, catch_rung):
        self.entries = entries
        self.nrungs = nrungs          # 0 = no match block
        self.catch_rung = catch_rung  # rung index containing `_` (None if absent); no match block => 0

    def has_skip(self):
        return any(e.mapping[0] == "skip" for e in self.entries)

    def names(self):
        out = []
        for e in self.entries:
            n = e.user_name()
            if n is not None and n not in out:
                out.append(n)
        return out

    def ranks(self):
        """documented precedence: earlier rung first; literal above regex within a rung; `_`
        terminals join the rung of `_`; implicit whitespace skip above everything."""
        out = []
        nr = max(self.nrungs, 1)
        for e in self.entries:
            rung = e.rung if e.rung is not None else self.catch_rung
            out.append((nr - rung) * 2 + (1 if e.kind == "lit" else 0))
        return out

    def ref_patterns(self):
        pats = []
        for e, r in zip(self.entries, self.ranks()):
            pats.append({"kind": e.kind, "src": e.src, "rank": r, "skip": e.mapping[0] == "skip"})
        if not self.has_skip():
            pats.append({"kind": "re", "src": "\\s+", "rank": 10 ** 6, "skip": True})
        return pats

    def grammar_text(self, start_is_list=True):
        s = "use crate::support::*;\n/*@CONFIG@*/\ngrammar;\n\n"
        if self.nrungs:
            rungs = []
            for k in range(self.nrungs):
                items = []
                for e in self.entries:
                    if e.rung == k:
                        m = e.mapping
                        t = e.gtext()
                        if m[0] == "lit":
                            t += " => " + lit_grammar_text(m[1])
                        elif m[0] == "id":
                            t += " => " + m[1]
                        elif m[0] == "skip":
                            t += " => { }"
                        items.append(t)
                if self.catch_rung == k:
                    items.append("_")
                rungs.append("{\n    " + ",\n    ".join(items) + "\n}")
            s += "match " + " else ".join(rungs) + "\n\n"
        names = self.names()
        s += "pub S: Vec<V> = <T*>;\n\nT: V = {\n"
        for i, n in enumerate(names):
            s += "    <l:@L> <t:%s> <r:@R> => V::node(%d, vec![l.to_v(), t.to_v(), r.to_v()]),\n" % (n, i)
        s += "};\n"
        return s


def gen_entry(rng, exotic=0.1, lit_p=0.5, nullable=0.1, lits=None):
    if rng.random() < lit_p:
        return Entry("lit", rng.choice(lits or LITS))
    ast = gen_rx(rng, exotic=exotic, allow_nullable=nullable)
    return Entry("re", rx_src(ast), ast)


def gen_spec(rng, nent=(2, 6), match_p=0.6, exotic=0.1, nullable=0.1, lit_p=0.5, lits=None):
    n = rng.randint(*nent)
    entries = []
    seen = set()
    for _ in range(n * 3):
        if len(entries) >= n:
            break
        e = gen_entry(rng, exotic, lit_p, nullable, lits)
        if (e.kind, e.src) in seen:
            continue
        seen.add((e.kind, e.src))
        entries.append(e)
    if rng.random() < match_p:
        nr = rng.randint(1, 3)
        catch = rng.choice([None, None] + list(range(nr)))
        ids = ["ID", "NUM", "OP", "KW", "X1", "X2", "X3"]
        for e in entries:
            if catch is not None and rng.random() < 0.3:
                e.rung = None     # used directly in the grammar, joins the `_` rung
            else:
                e.rung = rng.randrange(nr)
                k = rng.random()
                if k < 0.2:
                    e.mapping = ("id", ids.pop(0))
                elif k < 0.35:
                    e.mapping = ("lit", "n%d" % len(ids) + rng.choice(["", "+", " "]))
                elif k < 0.5:
                    e.mapping = ("skip",)
        if all(e.mapping[0] == "skip" for e in entries):
            entries[0].mapping = ("self",)
            if entries[0].rung is None:
                entries[0].rung = 0
        return LexSpec(entries, nr, catch)
    return LexSpec(entries, 0, 0)


def gen_texts(rng, spec, n=40, maxlen=14):
    alpha = list(ALPHA) + [" ", " ", "\t", "\n", "$", "é", "λ", "-", "+", "(", "=", "."]
    pieces = []
    for e in spec.entries:
        if e.kind == "lit":
            pieces.append(e.src)
        else:
            for _ in range(3):
                try:
                    pieces.append(rx_sample(rng, e.ast))
                except Exception:
                    pass
    out = [""]
    for _ in range(n):
        k = rng.random()
        if k < 0.6 and pieces:
            t = ""
            for _ in range(rng.randint(1, 5)):
                t += rng.choice(pieces)
                if rng.random() < 0.5:
                    t += rng.choice([" ", "  ", "\t", "\n", "", ""])
            if rng.random() < 0.25 and t:
                i = rng.randrange(len(t))
                t = t[:i] + rng.choice(alpha) + t[i + (1 if rng.random() < 0.5 else 0):]
        else:
            t = "".join(rng.choice(alpha) for _ in range(rng.randint(0, maxlen)))
        out.append(t)
    return out
