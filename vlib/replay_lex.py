"""Replay of lexer witnesses (C08a/C09/C10): rebuild the one generated lexer, rerun the one text,
compare with the expectation stored in the witness."""
import json

from . import core, lexcheck, subject
from .subject import wl_line


def replay(prop, path):
    w = json.load(open(path))["witness"]
    chk = core.Check(prop, "exploration", "quick", 0)
    subj = subject.Subject(chk.work + "-replay")
    tag = w.get("config", "td_lane")
    m = subj.add("x0_" + tag, w["grammar"], cfg=None, starts=["S"], kind="builtin")
    if m.status != "ok":
        print("replay: lalrpop now says %s\n%s" % (m.status, m.stderr[-800:]))
        return 0
    if not subj.build():
        print("replay: generated lexer does not compile")
        return 0
    text = bytes.fromhex(w["text_hex"]).decode()
    res = subj.run([wl_line(0, m.name, "S", text=text, budget=64 * (len(text.encode()) + 2) ** 2 * 12)])
    rec = res.get(0)
    print("observed:", json.dumps(rec, ensure_ascii=False))
    exp = w.get("expected", {})
    bad = False
    if rec is None or rec.get("panic") or "crash" in rec:
        bad = True
    elif "expected_tokens" in exp:
        bad = "ok" not in rec["r"] or lexcheck.observed_tokens(rec["r"]) != [tuple(x) for x in exp["expected_tokens"]]
    elif "expected" in exp:
        bad = rec["r"] != exp["expected"]
    if bad:
        print("VIOLATION property=%s replay=%s" % (prop, path))
        return 1
    print("replay: no violation reproduced")
    return 0
