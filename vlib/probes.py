"""Deterministic probes for the recorded known findings: each check that owns a finding puts
its specific failing input into the workload of every run, so that the KNOWN-FINDING line is
printed on every run of the unchanged tree (and a repaired finding is noticed)."""
from .gmodel import Alt, Grammar, Item, N, NT, T
from . import gen


def f5_grammar():
    """Expr/Term/Factor: recursive ascent + lane table lists ")" after `n n`"""
    def named(syms):
        names = ["x", "y", "z"]
        return Alt([Item(s, ("name", names[i], False)) for i, s in enumerate(syms)], action="named")
    g = Grammar([
        NT("S", [named([N("S"), T("+"), N("A")]), named([N("A")])], ty="V", pub=True),
        NT("A", [named([N("A"), T("*"), N("B")]), named([N("B")])], ty="V"),
        NT("B", [named([T("("), N("S"), T(")")]), named([T("n")])], ty="V"),
    ], ["+", "*", "(", ")", "n"])
    gen._assign_pids(g)
    g.mode = {"S": "user", "A": "user", "B": "user"}
    g.probe = "F5"
    g.probe_inputs = [["n", "n"], ["(", "n", "n"], ["n", "+", "n", "n"]]
    return g


def f13_grammar():
    """S = A B "c" with A and B both #[inline] and observable actions"""
    a = NT("A", [Alt([Item(T("a"), ("name", "x", False))], action="named"), Alt([], action="none_sel")], ty="V")
    b = NT("B", [Alt([Item(T("b"), ("sel",))], action="angle", fallible=True), Alt([], action="none_sel")], ty="V")
    s = NT("S", [Alt([Item(N("A")), Item(N("B")), Item(T("c"))], action="angle", fallible=True)], ty="V", pub=True)
    g = Grammar([s, a, b], ["a", "b", "c"])
    gen._assign_pids(g)
    g.mode = {"S": "user", "A": "user", "B": "user"}
    g.probe = "F13"
    g.probe_inline = {"A", "B"}
    g.probe_inputs = [["c"], ["a", "c"], ["a", "b", "c"]]
    return g


F14_RULES = {"S": [[], ["A", "A"]], "A": [["S", "A"], ["A", "A"]]}

F12_TEXT = 'grammar; extern { enum Tok { "a" => Tok::A } } M<X>: () = { M<(X X)> => (), "a" => () }; pub S: () = M<"a">;\n'


def f6_grammar():
    """annotated E with levels 1 and 2, referenced from S; renaming S to `E1` collides with the
    generated level nonterminal"""
    def named(syms):
        names = ["x", "y", "z"]
        return Alt([Item(s, ("name", names[i], False)) for i, s in enumerate(syms)], action="named")
    a1 = named([T("n")])
    a1.prec = (1, None)
    a2 = named([N("E"), T("+"), N("E")])
    a2.prec = (2, "left")
    g = Grammar([
        NT("S", [named([N("E"), T(";")])], ty="V", pub=True),
        NT("E", [a1, a2], ty="V"),
    ], ["n", "+", ";"])
    gen._assign_pids(g)
    return g

F23_TEXT = 'grammar; extern { enum Tok { "a" => Tok::A(<#S#>) } } pub S: () = "a" => ();\n'

F26_RULES = {"S": [["i", "s", "X", "d"], ["i", "s", "Y", "z"], ["i", "s", "Z", "m"], ["b", "X", "d"], ["b", "Y", "m"], ["b", "Z", "z"], ["X", "z"], ["Z", "m"]],
             "X": [["n"], ["i", "Z"]], "Y": [["n"], ["n", "Y"]], "Z": [["n"], ["b", "i", "X"]]}
