"""More generator profiles: recovery (C16), inline pairs (C14), macros (C13), precedence (C12)."""
import copy

from . import gen
from .gmodel import Alt, Grammar, Grp, Item, Mac, N, NT, Rep, Sym, T, desugar

NAMES = ["x", "y", "z", "w", "u", "q", "o", "i", "k", "j", "h", "g2"]


def full_named(alt):
    """bind every item (so the returned tree mirrors the production exactly)"""
    names = list(NAMES)
    for it in alt.items:
        it.bind = ("name", names.pop(0), False)
    alt.action = "named" if alt.items else "none_sel"


def gen_recovery(rng):
    """profile `recovery`: every nonterminal has type V and binds all its symbols; 1-3 error
    alternatives of the form  @L ! @R  with optional terminals around."""
    while True:
        g = gen.gen_core(rng, modes=("user",), sugar=0.0, fallible=0.0, npub=(1, 1), template=0.7, eps=0.1)
        if all(it.sym.k in ("t", "n") for nt in g.nts for alt in nt.alts for it in alt.items):
            break
    for nt in g.nts:
        nt.ty = "V"
        for alt in nt.alts:
            for it in alt.items:
                it.bind = None
            alt.fallible = False
            full_named(alt)
    nerr = rng.choice([1, 1, 2, 3])
    for _ in range(nerr):
        nt = rng.choice(g.nts)
        shape = rng.random()
        items = [Item(Sym("L")), Item(Sym("err")), Item(Sym("R"))]
        if shape < 0.35:
            items.append(Item(T(rng.choice(g.terms))))
        elif shape < 0.6:
            items.insert(0, Item(T(rng.choice(g.terms))))
            items.append(Item(T(rng.choice(g.terms))))
        elif shape < 0.75:
            items.insert(0, Item(T(rng.choice(g.terms))))
        elif shape < 0.85:
            # error inside an existing alternative's context: copy a prefix
            base = rng.choice(nt.alts)
            k = rng.randint(0, len(base.items))
            items = [Item(copy.deepcopy(it.sym)) for it in base.items[:k]] + items
        alt = Alt(items)
        full_named(alt)
        nt.alts.append(alt)
    gen._assign_pids(g)
    return g


def strip_errors(g):
    """the same grammar without its `!` alternatives (for C16 clause 6)"""
    g2 = copy.deepcopy(g)
    for nt in g2.nts:
        nt.alts = [a for a in nt.alts if not any(it.sym.k == "err" for it in a.items)]
    g2.nts = [nt for nt in g2.nts]
    return g2
