"""More generator profiles: recovery (C16), inline pairs (C14), macros (C13), precedence (C12)."""
import copy

from . import gen
from .gmodel import Alt, Grammar, Grp, Item, Mac, N, NT, Rep, Sym, T, desugar

NAMES = ["x", "y", "z", "w", "u", "q", "o", "i", "k", "j", "h", "g2"]


def full_named(alt):
    """bind every item (so the returned tree mirrors the production exactly)"""
    names = list(NAMES)
    for it in alt.items:
        it.bind = ("name", names.pop(0), False)
    alt.action = "named" if alt.items else "none_sel"


def gen_recovery(rng):
    """profile `recovery`: every nonterminal has type V and binds all its symbols; 1-3 error
    alternatives of the form  @L ! @R  with optional terminals around."""
    while True:
        g = gen.gen_core(rng, modes=("user",), sugar=0.0, fallible=0.0, npub=(1, 1), template=0.7, eps=0.1)
        if all(it.sym.k in ("t", "n") for nt in g.nts for alt in nt.alts for it in alt.items):
            break
    for nt in g.nts:
        nt.ty = "V"
        for alt in nt.alts:
            for it in alt.items:
                it.bind = None
            alt.fallible = False
            full_named(alt)
    nerr = rng.choice([1, 1, 2, 3])
    for _ in range(nerr):
        nt = rng.choice(g.nts)
        shape = rng.random()
        items = [Item(Sym("L")), Item(Sym("err")), Item(Sym("R"))]
        if shape < 0.35:
            items.append(Item(T(rng.choice(g.terms))))
        elif shape < 0.6:
            items.insert(0, Item(T(rng.choice(g.terms))))
            items.append(Item(T(rng.choice(g.terms))))
        elif shape < 0.75:
            items.insert(0, Item(T(rng.choice(g.terms))))
        elif shape < 0.85:
            # error inside an existing alternative's context: copy a prefix
            plain = [a for a in nt.alts if not any(it.sym.k in ("err", "L", "R") for it in a.items)]
            if not plain:
                continue
            base = rng.choice(plain)
            k = rng.randint(0, len(base.items))
            items = [Item(copy.deepcopy(it.sym)) for it in base.items[:k]] + items
        alt = Alt(items)
        full_named(alt)
        nt.alts.append(alt)
    gen._assign_pids(g)
    return g


def strip_errors(g):
    """the same grammar without its `!` alternatives (for C16 clause 6)"""
    g2 = copy.deepcopy(g)
    for nt in g2.nts:
        nt.alts = [a for a in nt.alts if not any(it.sym.k == "err" for it in a.items)]
    g2.nts = [nt for nt in g2.nts]
    return g2


# ------------------------------------------------------------------------------------------
# profile `macros` (C13)

def _named_alt(items_syms, names=None):
    names = list(names or NAMES)
    alt = Alt([Item(s, ("name", names.pop(0), False)) for s in items_syms])
    alt.action = "named" if alt.items else "none_sel"
    return alt


def _macro_defs(rng, terms):
    """returns list of (NT macro definition, kind) ; kinds: wrap, pair, cond, list, rec, opt"""
    t = lambda: T(rng.choice(terms))
    defs = []
    kinds = rng.sample(["wrap", "pair", "cond", "list", "rec", "opt", "wrap2"], rng.randint(1, 4))
    for k in kinds:
        if k == "wrap":
            alts = [_named_alt([t(), N("X")]), _named_alt([N("X"), N("X"), t()])]
            if rng.random() < 0.5:
                alts.append(_named_alt([t()]))
            defs.append((NT("Wrap", alts[:rng.randint(1, len(alts))], ty="V", params=["X"]), k))
        elif k == "wrap2":
            # uses its parameter inside a group and a repeat, and another macro inside
            alts = [_named_alt([Grp([Item(N("X")), Item(t())]), Rep(N("X"), rng.choice("?*"))])]
            defs.append((NT("Nest", alts, ty="V", params=["X"]), k))
        elif k == "pair":
            a = Alt([Item(N("X"), ("sel",)), Item(N("Y"), ("sel",) if rng.random() < 0.6 else None)])
            defs.append((NT("Pair", [a], params=["X", "Y"]), k))
        elif k == "cond":
            lit = rng.choice(terms)
            lit2 = rng.choice(terms)
            alts = []
            a1 = _named_alt([N("X"), t()])
            a1.cond = ("X", rng.choice(["==", "!="]), lit)
            alts.append(a1)
            a2 = _named_alt([t(), N("X")])
            op2 = rng.choice(["!=", "==", "~~", "!~"])
            a2.cond = ("X", op2, rng.choice(["^[ab]$", "[c-e]", "^a", "b$", "^.$", "a", "b", "ab", "c", "bc"]) if op2 in ("~~", "!~") else rng.choice([lit2, lit]))
            alts.append(a2)
            a3 = _named_alt([N("X")])
            if rng.random() < 0.5:
                a3.cond = ("X", "!~", "^zz")
            alts.append(a3)
            defs.append((NT("Cond", alts, ty="V", params=["X"]), k))
        elif k == "list":
            sep = t()
            a = Alt([Item(Rep(Grp([Item(N("X"), ("sel",)), Item(sep)]), "*"), ("sel",)), Item(Rep(N("X"), "?"), ("sel",))])
            defs.append((NT("List", [a], params=["X"]), k))
        elif k == "opt":
            a = Alt([Item(Rep(N("X"), "?"), None), Item(t(), None)])
            defs.append((NT("Opt", [a], params=["X"]), k))
        elif k == "rec":
            a1 = _named_alt([Mac("Tier", [N("Op"), N("Next")]), N("Op"), N("Next")])
            a2 = _named_alt([N("Next")])
            defs.append((NT("Tier", [a1, a2], ty="V", params=["Op", "Next"]), k))
    return defs


def gen_macros(rng):
    g = gen.gen_core(rng, modes=("user", "user", "user", "unit"), sugar=0.1, fallible=0.0, template=0.6)
    terms = list(g.terms)
    if rng.random() < 0.3:
        # terminal names that look like macro syntax: try to confuse printed cache keys
        for extra in rng.sample([",", ">", "<", "a, b", "(", ")", "*", "?", "a>", "<a"], 2):
            if extra not in terms:
                terms.append(extra)
        g.terms = terms
    if rng.random() < 0.6:
        # multi-character literals: regex conditions are unanchored searches, not equality
        for extra in rng.sample(["ab", "abc", "ba", "bc", "cab", "aa"], 3):
            if extra not in terms:
                terms.append(extra)
        g.terms = terms
    if rng.random() < 0.4:
        # bare (identifier) terminals whose names equal macro formal parameters: inside the macro
        # the parameter shadows the global terminal, outside the name means the terminal
        for extra in rng.sample(["$X", "$Y", "$Op", "$Next"], rng.randint(1, 2)):
            terms.append(extra)
        g.terms = terms
    defs = _macro_defs(rng, [t for t in terms if not t.startswith("$")])
    user_nts = [nt.name for nt in g.nts if nt.ty == "V"]

    def arg(depth=0, literal=False):
        k = rng.random()
        if literal or k < 0.45:
            return T(rng.choice(terms))
        if k < 0.65 and user_nts:
            return N(rng.choice(user_nts))
        if k < 0.75:
            return Rep(T(rng.choice(terms)), rng.choice("?*+"))
        if k < 0.88:
            return Grp([Item(T(rng.choice(terms))), Item(T(rng.choice(terms)))])
        if depth < 1:
            d, kind = rng.choice(defs)
            if kind not in ("cond",):
                return Mac(d.name, [arg(depth + 1) for _ in d.params])
        return T(rng.choice(terms))

    uses = 0
    hosts = [nt for nt in g.nts if nt.ty == "V"]
    for _ in range(rng.randint(2, 6)):
        if not hosts:
            break
        nt = rng.choice(hosts)
        alt = rng.choice(nt.alts)
        if alt.action not in ("named", "angle", "none_sel"):
            continue
        d, kind = rng.choice(defs)
        m = Mac(d.name, [arg(literal=(kind == "cond")) for _ in d.params])
        used = {it.bind[1] for it in alt.items if it.bind and it.bind[0] == "name"}
        fresh = [n for n in ["m1", "m2", "m3", "m4", "m5", "m6", "m7", "m8"] if n not in used]
        if not fresh:
            continue
        if alt.action == "named":
            b = ("name", fresh[0], False) if fresh else None
        elif alt.action == "angle":
            any_sel = any(it.bind and it.bind[0] == "sel" for it in alt.items)
            any_named = any(it.bind and it.bind[0] == "name" for it in alt.items)
            b = ("name", fresh[0], False) if any_named else (("sel",) if any_sel else None)
        else:
            b = None
        if not alt.items and alt.action == "none_sel":
            alt.action = "named"
            b = ("name", "m1", False)
        pos = rng.randint(0, len(alt.items))
        if rng.random() < 0.3 and alt.items:
            alt.items[rng.randrange(len(alt.items))] = Item(m, b)
        else:
            alt.items.insert(pos, Item(m, b))
        uses += 1
    g.nts = g.nts + [d for d, _ in defs]
    gen._assign_pids(g)
    g.macro_uses = uses
    return g


# ------------------------------------------------------------------------------------------
# profile `precedence` (C12)

def gen_prec(rng):
    ops = list("+-*/^!~?:,@%&|<>=")
    rng.shuffle(ops)
    nlev = rng.randint(2, 5)
    levels = sorted(rng.sample(range(0, 12), nlev))
    terms = ["n", "(", ")"]
    alts = []   # (level, assoc, items)

    def E():
        return N("E")

    def op():
        o = ops.pop()
        terms.append(o)
        return T(o)
    # the tightest level holds atoms (assoc must stay `all` there)
    alts.append((levels[0], None, [T("n")]))
    if rng.random() < 0.8:
        alts.append((levels[0], None, [T("("), E(), T(")")]))
    for l in levels[1:]:
        for _ in range(rng.choice([1, 2, 2, 3])):
            if len(ops) < 3:
                break
            kind = rng.choice(["bin", "bin", "prefix", "prefix", "postfix", "postfix", "ternary", "nary", "grp", "opt"])
            assoc = rng.choice(["left", "right", "none", "left", None, "all"])
            if kind == "bin":
                items = [E(), op(), E()]
                if assoc in (None, "all"):
                    assoc = rng.choice(["left", "right", "none"])
            elif kind == "prefix":
                items = [op(), E()]
                assoc = rng.choice([None, "all", "right", "left", "none"])
            elif kind == "postfix":
                items = [E(), op()]
                assoc = rng.choice([None, "all", "left", "right", "none"])
            elif kind == "ternary":
                items = [E(), op(), E(), op(), E()]
                assoc = rng.choice(["left", "right", "none"])
            elif kind == "nary":
                items = [E(), op(), E(), op(), E()]
                assoc = rng.choice(["left", "right", "none"])
            elif kind == "grp":
                from .gmodel import Grp as G_
                items = [E(), G_([Item(op()), Item(E())])]
                assoc = rng.choice(["left", "right", "none"])
            else:
                items = [op(), E(), Rep(op(), "?")]
                assoc = rng.choice(["left", "right", "none", "all"])
            alts.append((l, assoc, items))
    # source order: interleave levels; each alternative gets explicit or inherited attributes
    order = list(range(len(alts)))
    k_ord = rng.random()
    if k_ord < 0.4:
        rng.shuffle(order)
    elif k_ord < 0.7:
        # keep the alternatives of one level together (so levels get restated / inherited),
        # but shuffle inside each level and shuffle the levels
        by = {}
        for i, (l, a, it) in enumerate(alts):
            by.setdefault(l, []).append(i)
        ls = list(by)
        rng.shuffle(ls)
        order = []
        for l in ls:
            rng.shuffle(by[l])
            order += by[l]
    out = []
    cur_l, cur_a = None, "all"
    for idx in order:
        l, a, items = alts[idx]
        eff = a if a is not None else "all"
        pl = None
        pa = None
        if cur_l != l or rng.random() < 0.5:
            pl = l
            cur_l, cur_a = l, "all"
        if eff != cur_a:
            pa = eff
            cur_a = eff
        elif a is not None and rng.random() < 0.3 and not (l == levels[0]):
            pa = eff
        alt = Alt([Item(s) for s in items])
        full_named(alt)
        alt.prec = (pl, pa)
        out.append(alt)
    e = NT("E", out, ty="V", pub=rng.random() < 0.5)
    nts = [e]
    semi = ";"
    terms.append(semi)
    s_alt = Alt([Item(N("E")), Item(T(semi))])
    full_named(s_alt)
    s_alts = [s_alt]
    if rng.random() < 0.5:
        a2 = Alt([Item(N("S")), Item(N("E")), Item(T(semi))])
        full_named(a2)
        s_alts.append(a2)
    nts.insert(0, NT("S", s_alts, ty="V", pub=True))
    g = Grammar(nts, terms)
    gen._assign_pids(g)
    return g
