"""Seeded generators: grammars (profiles), sentences, mutations, exhaustive short strings."""
import itertools

from .gmodel import (Alt, Grammar, Grp, Item, N, NT, Rep, Sym, T, desugar, selected)

TERMS = list("abcdefgh")
NTNAMES = ["S", "A", "B", "C", "D", "E", "F", "G"]
BINDNAMES = ["x", "y", "z", "w", "u", "q", "r", "s"]


def _rand_sym(rng, terms, nts, sugar, depth=0, allow_nt=True):
    r = rng.random()
    if r < sugar and depth < 2:
        k = rng.random()
        if k < 0.6:
            inner = _rand_sym(rng, terms, nts, sugar * 0.5, depth + 1, allow_nt)
            return Rep(inner, rng.choice("*+?"))
        n = rng.randint(1, 3)
        items = [Item(_rand_sym(rng, terms, nts, sugar * 0.5, depth + 1, allow_nt)) for _ in range(n)]
        return Grp(items)
    if allow_nt and nts and rng.random() < 0.4:
        return N(rng.choice(nts))
    return T(rng.choice(terms))


def gen_core(rng, nterm=(2, 5), nnt=(1, 5), sugar=0.12, max_alts=3, max_len=4, eps=0.15,
             modes=("user", "user", "user", "unit", "pick", "single"), fallible=0.0, npub=(1, 2),
             pat=0.3):
    """Random grammar over extern tokens with a mix of action styles (profile `core`)."""
    terms = TERMS[:rng.randint(*nterm)]
    k = rng.randint(*nnt)
    names = NTNAMES[:k]
    mode = {}
    for n in names:
        mode[n] = rng.choice(modes)
    # nonterminals whose type is known without inference cycles
    typed = [n for n in names if mode[n] in ("user", "unit")]
    if not typed:
        mode[names[0]] = "user"
        typed = [names[0]]
    nts = []
    for n in names:
        m = mode[n]
        na = rng.randint(1, max_alts)
        alts = []
        used_first = set()
        refs = names if m in ("user", "unit") else typed
        for ai in range(na):
            ln = 0 if (rng.random() < eps and na > 1) else rng.randint(1, max_len)
            syms = []
            for j in range(ln):
                if j == 0 and rng.random() < 0.55:
                    cand = [t for t in terms if t not in used_first]
                    if cand:
                        t = rng.choice(cand)
                        used_first.add(t)
                        syms.append(T(t))
                        continue
                syms.append(_rand_sym(rng, terms, refs, sugar))
            alts.append(Alt([Item(s) for s in syms]))
        nts.append(NT(n, alts))
    g = Grammar(nts, terms)
    npubs = min(len(names), rng.randint(*npub))
    for nt in g.nts[:1] + rng.sample(g.nts[1:], npubs - 1):
        nt.pub = True
    _decorate(rng, g, mode, fallible, pat)
    _fix_productive(rng, g, mode)
    _assign_pids(g)
    g.mode = mode
    return g


def _sym_is_tok(s):
    return s.k == "t"


def _decorate(rng, g, mode, fallible, pat):
    """Choose bindings and action styles per nonterminal mode."""
    user = {n for n, m in mode.items() if m == "user"}
    for nt in g.nts:
        m = mode[nt.name]
        if m == "user":
            nt.ty = "V"
            for alt in nt.alts:
                _decorate_user_alt(rng, alt, user, fallible, pat)
        elif m == "unit":
            nt.ty = "()"
            nt.unit = True
            for alt in nt.alts:
                alt.action = None
                for it in alt.items:
                    if rng.random() < 0.15:
                        it.bind = ("sel",)
        elif m == "pick":
            # every alternative selects exactly one terminal: type Tok (inferred)
            for alt in nt.alts:
                ts = [i for i, it in enumerate(alt.items) if _sym_is_tok(it.sym)]
                if not ts:
                    alt.items.insert(rng.randint(0, len(alt.items)), Item(T(rng.choice(g.terms))))
                    ts = [i for i, it in enumerate(alt.items) if _sym_is_tok(it.sym)]
                i = rng.choice(ts)
                if len(alt.items) > 1 or rng.random() < 0.5:
                    alt.items[i].bind = ("sel",)
            if rng.random() < 0.3:
                nt.ty = "Tok"
        elif m == "single":
            # one alternative, arbitrary shape, type inferred
            nt.alts = nt.alts[:1]
            alt = nt.alts[0]
            if not alt.items:
                alt.items.append(Item(T(rng.choice(g.terms))))
            for it in alt.items:
                if rng.random() < 0.3:
                    it.bind = ("sel",)
            # a single selected unit-typed symbol would make the type () - fine as well


def _decorate_user_alt(rng, alt, user, fallible, pat):
    n = len(alt.items)
    alt.fallible = rng.random() < fallible
    if n == 0:
        alt.action = "none_sel"
        return
    r = rng.random()
    if r < 0.08 and not alt.fallible:
        # default action: exactly one selected symbol of type V
        vs = [i for i, it in enumerate(alt.items) if it.sym.k == "n" and it.sym.name in user]
        if vs:
            i = rng.choice(vs)
            if n > 1:
                alt.items[i].bind = ("sel",)
            alt.action = None
            alt.fallible = False
            return
    if r < 0.45:
        alt.action = "named"
        k = rng.randint(1, n)
        idx = sorted(rng.sample(range(n), k))
        names = list(BINDNAMES)
        for j, i in enumerate(idx):
            it = alt.items[i]
            if it.sym.k == "grp" and len(selected(it.sym.items)) >= 2 and rng.random() < pat:
                m = len(selected(it.sym.items))
                it.bind = ("pat", [names.pop(0) for _ in range(m)])
            else:
                it.bind = ("name", names.pop(0), rng.random() < 0.2)
        return
    if r < 0.75:
        alt.action = "angle"
        if rng.random() < 0.5:
            k = rng.randint(1, n)
            for i in rng.sample(range(n), k):
                alt.items[i].bind = ("sel",)
        return
    if r < 0.9:
        k = rng.randint(2, n) if n >= 2 else 0
        if k >= 2:
            alt.action = "angle_multi"
            if k < n or rng.random() < 0.5:
                for i in rng.sample(range(n), k):
                    alt.items[i].bind = ("sel",)
            return
    alt.action = "none_sel"


def _fix_productive(rng, g, mode):
    for _ in range(10):
        cfg = desugar_quiet(g)
        bad = [nt for nt in g.nts if nt.name not in cfg.productive]
        if not bad:
            return
        for nt in bad:
            t = rng.choice(g.terms)
            m = mode[nt.name]
            if m == "user":
                nt.alts.append(Alt([Item(T(t), ("name", "x", False))], action="named"))
            elif m == "unit":
                nt.alts.append(Alt([Item(T(t))]))
            elif m == "pick":
                nt.alts.append(Alt([Item(T(t))]))
            else:
                nt.alts = [Alt([Item(T(t))])]


def desugar_quiet(g):
    # pids may be unassigned at this point
    return desugar(g)


def _assign_pids(g):
    p = 0
    for nt in g.nts:
        for alt in nt.alts:
            if alt.action is not None:
                alt.pid = p
            p += 1


# ------------------------------------------------------------------------------------------
# sentences


def min_heights(cfg):
    INF = 10 ** 9
    h = {x: INF for x in cfg.nts}
    ph = {}
    ch = True
    while ch:
        ch = False
        for p in cfg.live:
            v = 1 + max([0] + [0 if s in cfg.terms else h[s] for s in p.rhs])
            if v < ph.get(p.idx, INF):
                ph[p.idx] = v
            if v < h[p.lhs]:
                h[p.lhs] = v
                ch = True
    return h, ph


def random_sentence(rng, cfg, start, depth=8, max_len=60, _cache={}):
    key = id(cfg)
    if key not in _cache or _cache[key][0] is not cfg:
        _cache.clear()
        _cache[key] = (cfg, min_heights(cfg))
    h, ph = _cache[key][1]
    out = []

    def go(x, d):
        if len(out) > max_len:
            raise OverflowError
        if x in cfg.terms:
            out.append(x)
            return
        ps = cfg.live_by_lhs.get(x, [])
        if not ps:
            raise OverflowError
        if d <= 0:
            m = min(ph[p.idx] for p in ps)
            ps = [p for p in ps if ph[p.idx] == m]
        p = rng.choice(ps)
        for s in p.rhs:
            go(s, d - 1)

    for _ in range(20):
        out = []
        try:
            go(start, depth)
            return out
        except OverflowError:
            depth = max(1, depth - 2)
    return None


def mutate(rng, sent, alphabet, nmut=1):
    s = list(sent)
    for _ in range(nmut):
        k = rng.random()
        if k < 0.34 and s:
            del s[rng.randrange(len(s))]
        elif k < 0.67:
            s.insert(rng.randint(0, len(s)), rng.choice(alphabet))
        elif s:
            s[rng.randrange(len(s))] = rng.choice(alphabet)
    return s


def all_strings(alphabet, maxlen):
    for L in range(maxlen + 1):
        for w in itertools.product(alphabet, repeat=L):
            yield list(w)


def inputs_for(rng, cfg, start, alphabet, exhaustive_budget=400, nrandom=40, nmut=60, max_len=40):
    """Mixed workload for one (grammar, start): exhaustive short strings, sentences, mutants,
    random strings.  Returns list of token-name lists (deduplicated)."""
    seen = set()
    out = []

    def add(w):
        t = tuple(w)
        if t not in seen:
            seen.add(t)
            out.append(list(w))

    L = 0
    total = 1
    while total + len(alphabet) ** (L + 1) <= exhaustive_budget and L < 7:
        L += 1
        total += len(alphabet) ** L
    for w in all_strings(alphabet, L):
        add(w)
    sents = []
    for i in range(nrandom):
        s = random_sentence(rng, cfg, start, depth=rng.randint(2, 9), max_len=max_len)
        if s is not None:
            sents.append(s)
            add(s)
    for i in range(nmut):
        if not sents:
            break
        s = rng.choice(sents)
        add(mutate(rng, s, alphabet, nmut=rng.choice([1, 1, 1, 2, 3])))
    for i in range(nrandom // 2):
        add([rng.choice(alphabet) for _ in range(rng.randint(0, 12))])
    return out, L
