"""Seeded generators: grammars (profiles), sentences, mutations, exhaustive short strings."""
import itertools

from .gmodel import (Alt, Grammar, Grp, Item, N, NT, Rep, Sym, T, desugar, selected)

TERMS = list("abcdefgh")
NTNAMES = ["S", "A", "B", "C", "D", "E", "F", "G"]
BINDNAMES = ["x", "y", "z", "w", "u", "q", "r", "s"]


def _rand_sym(rng, terms, nts, sugar, depth=0, allow_nt=True):
    r = rng.random()
    if r < sugar and depth < 2:
        k = rng.random()
        if k < 0.6:
            inner = _rand_sym(rng, terms, nts, sugar * 0.5, depth + 1, allow_nt)
            return Rep(inner, rng.choice("*+?"))
        n = rng.randint(1, 3)
        items = [Item(_rand_sym(rng, terms, nts, sugar * 0.5, depth + 1, allow_nt)) for _ in range(n)]
        return Grp(items)
    if allow_nt and nts and rng.random() < 0.4:
        return N(rng.choice(nts))
    return T(rng.choice(terms))


TEMPLATES = [
    # classic expression grammar (left recursion, three levels)
    ("abcde", {"S": [["S", "a", "A"], ["A"]], "A": [["A", "b", "B"], ["B"]], "B": [["c", "S", "d"], ["e"]]}),
    # right-recursive list
    ("abc", {"S": [["A"], ["A", "a", "S"]], "A": [["b"], ["c"]]}),
    # LR(1) but not LALR(1)
    ("abcde", {"S": [["a", "A", "c"], ["a", "B", "d"], ["b", "B", "c"], ["b", "A", "d"]], "A": [["e"]], "B": [["e"]]}),
    # nullable prefix chain
    ("abc", {"S": [["A", "B", "c"]], "A": [["a"], []], "B": [["b"], []]}),
    # nesting with empty base
    ("ab", {"S": [["a", "S", "b"], []]}),
    # centre-marked nesting
    ("ab", {"S": [["a", "S", "a"], ["b"]]}),
    # statements
    ("abcdef", {"S": [["A", "S"], []], "A": [["a", "b"], ["c", "S", "d"], ["e", "B"]], "B": [["b"], ["B", "f", "b"]]}),
    # reduce decided by lookahead
    ("abc", {"S": [["A", "a"], ["B", "b"]], "A": [["c"]], "B": [["c"]]}),
    # LALR(1) but not SLR(1)
    ("abcd", {"S": [["A", "a"], ["b", "A", "c"], ["d", "c"], ["b", "d", "a"]], "A": [["d"]]}),
    # nullable in the middle and at the end
    ("abcd", {"S": [["a", "A", "b", "B"]], "A": [["c", "A"], []], "B": [["B", "d"], []]}),
    # two starts sharing structure
    ("abcd", {"S": [["a", "A"], ["b"]], "A": [["S", "c"], ["d"]]}),
    # deep unit chain
    ("abc", {"S": [["A"]], "A": [["B"]], "B": [["C"], ["a", "B"]], "C": [["b"], ["c", "S", "c"]]}),
]


def _skeleton_template(rng, sugar):
    terms_s, rules = rng.choice(TEMPLATES)
    terms = list(terms_s)
    names = list(rules.keys())
    sk = {n: [[(T(x) if x in terms else N(x)) for x in alt] for alt in alts] for n, alts in rules.items()}
    # random mutations
    for _ in range(rng.choice([0, 0, 1, 1, 2, 3])):
        k = rng.random()
        n = rng.choice(names)
        if k < 0.35:
            ln = rng.randint(1, 3)
            alt = [T(rng.choice(terms))] + [_rand_sym(rng, terms, names, sugar) for _ in range(ln - 1)]
            sk[n].append(alt)
        elif k < 0.6:
            alt = rng.choice(sk[n])
            if alt:
                i = rng.randrange(len(alt))
                if alt[i].k == "t":
                    alt[i] = Rep(alt[i], rng.choice("*+?")) if rng.random() < 0.6 else Grp([Item(alt[i]), Item(T(rng.choice(terms)))])
        elif k < 0.8:
            alt = rng.choice(sk[n])
            alt.insert(rng.randint(0, len(alt)), T(rng.choice(terms)))
        else:
            if len(terms) < 7:
                terms.append(TERMS[len(terms)])
            alt = rng.choice(sk[n])
            alt.insert(rng.randint(0, len(alt)), T(terms[-1]))
    return terms, names, sk


def _skeleton_random(rng, nterm, nnt, sugar, max_alts, max_len, eps, mode_of):
    terms = TERMS[:rng.randint(*nterm)]
    k = rng.randint(*nnt)
    names = NTNAMES[:k]
    sk = {}
    for n in names:
        na = rng.randint(1, max_alts)
        alts = []
        used_first = set()
        for ai in range(na):
            ln = 0 if (rng.random() < eps and na > 1) else rng.randint(1, max_len)
            syms = []
            for j in range(ln):
                if j == 0 and rng.random() < 0.55:
                    cand = [t for t in terms if t not in used_first]
                    if cand:
                        t = rng.choice(cand)
                        used_first.add(t)
                        syms.append(T(t))
                        continue
                syms.append(_rand_sym(rng, terms, names, sugar))
            alts.append(syms)
        sk[n] = alts
    return terms, names, sk


def _refs_of(sym, out):
    if sym.k == "n":
        out.add(sym.name)
    elif sym.k == "rep":
        _refs_of(sym.inner, out)
    elif sym.k == "grp":
        for it in sym.items:
            _refs_of(it.sym, out)
    elif sym.k == "mac":
        for a in sym.args:
            _refs_of(a, out)


def gen_core(rng, nterm=(2, 5), nnt=(1, 5), sugar=0.12, max_alts=3, max_len=4, eps=0.15,
             modes=("user", "user", "user", "unit", "pick", "single"), fallible=0.0, npub=(1, 2),
             pat=0.3, template=0.5):
    """Random grammar over extern tokens with a mix of action styles (profile `core`)."""
    if rng.random() < template:
        terms, names, sk = _skeleton_template(rng, sugar)
    else:
        terms, names, sk = _skeleton_random(rng, nterm, nnt, sugar, max_alts, max_len, eps, None)
    mode = {n: rng.choice(modes) for n in names}
    # inferred-type nonterminals (pick/single) may only reference nonterminals with declared
    # types (user/unit), otherwise type inference could cycle; demote offenders to `user`
    for n in names:
        if mode[n] in ("pick", "single"):
            refs = set()
            for alt in sk[n]:
                for s in alt:
                    _refs_of(s, refs)
            if any(mode[r] in ("pick", "single") for r in refs):
                mode[n] = "user"
    nts = [NT(n, [Alt([Item(s) for s in alt]) for alt in sk[n]]) for n in names]
    g = Grammar(nts, terms)
    npubs = min(len(names), rng.randint(*npub))
    for nt in g.nts[:1] + rng.sample(g.nts[1:], npubs - 1):
        nt.pub = True
    _decorate(rng, g, mode, fallible, pat)
    _fix_productive(rng, g, mode)
    _assign_pids(g)
    g.mode = mode
    return g


def _sym_is_tok(s):
    return s.k == "t"


def _decorate(rng, g, mode, fallible, pat):
    """Choose bindings and action styles per nonterminal mode."""
    user = {n for n, m in mode.items() if m == "user"}
    for nt in g.nts:
        m = mode[nt.name]
        if m == "user":
            nt.ty = "V"
            for alt in nt.alts:
                _decorate_user_alt(rng, alt, user, fallible, pat)
        elif m == "unit":
            nt.ty = "()"
            nt.unit = True
            for alt in nt.alts:
                alt.action = None
                for it in alt.items:
                    if rng.random() < 0.15:
                        it.bind = ("sel",)
        elif m == "pick":
            # every alternative selects exactly one terminal: type Tok (inferred)
            for alt in nt.alts:
                ts = [i for i, it in enumerate(alt.items) if _sym_is_tok(it.sym)]
                if not ts:
                    alt.items.insert(rng.randint(0, len(alt.items)), Item(T(rng.choice(g.terms))))
                    ts = [i for i, it in enumerate(alt.items) if _sym_is_tok(it.sym)]
                i = rng.choice(ts)
                if len(alt.items) > 1 or rng.random() < 0.5:
                    alt.items[i].bind = ("sel",)
            if rng.random() < 0.3:
                nt.ty = "Tok"
        elif m == "single":
            # one alternative, arbitrary shape, type inferred
            nt.alts = nt.alts[:1]
            alt = nt.alts[0]
            if not alt.items:
                alt.items.append(Item(T(rng.choice(g.terms))))
            for it in alt.items:
                if rng.random() < 0.3:
                    it.bind = ("sel",)
            # a single selected unit-typed symbol would make the type () - fine as well


def _decorate_user_alt(rng, alt, user, fallible, pat):
    n = len(alt.items)
    alt.fallible = rng.random() < fallible
    if n == 0:
        alt.action = "none_sel"
        return
    r = rng.random()
    if r < 0.08 and not alt.fallible:
        # default action: exactly one selected symbol of type V
        vs = [i for i, it in enumerate(alt.items) if it.sym.k == "n" and it.sym.name in user]
        if vs:
            i = rng.choice(vs)
            if n > 1:
                alt.items[i].bind = ("sel",)
            alt.action = None
            alt.fallible = False
            return
    if r < 0.45:
        alt.action = "named"
        k = rng.randint(1, n)
        idx = sorted(rng.sample(range(n), k))
        names = list(BINDNAMES)
        rng.shuffle(names)
        for j, i in enumerate(idx):
            it = alt.items[i]
            if it.sym.k == "grp" and len(selected(it.sym.items)) >= 2 and rng.random() < pat:
                m = len(selected(it.sym.items))
                it.bind = ("pat", [names.pop(0) for _ in range(m)])
            else:
                it.bind = ("name", names.pop(0), rng.random() < 0.2)
        return
    if r < 0.75:
        alt.action = "angle"
        k2 = rng.random()
        if k2 < 0.4:
            k = rng.randint(1, n)
            for i in rng.sample(range(n), k):
                alt.items[i].bind = ("sel",)
        elif k2 < 0.7:
            # `<>` with NAMED symbols expands to the names in positional order
            k = rng.randint(1, n)
            names = list(BINDNAMES)
            rng.shuffle(names)
            for i in sorted(rng.sample(range(n), k)):
                alt.items[i].bind = ("name", names.pop(0), rng.random() < 0.15)
        return
    if r < 0.9:
        k = rng.randint(2, n) if n >= 2 else 0
        if k >= 2:
            alt.action = "angle_multi"
            if k < n or rng.random() < 0.5:
                for i in rng.sample(range(n), k):
                    alt.items[i].bind = ("sel",)
            return
    alt.action = "none_sel"


def _fix_productive(rng, g, mode):
    for _ in range(10):
        cfg = desugar_quiet(g)
        bad = [nt for nt in g.nts if nt.name not in cfg.productive]
        if not bad:
            return
        for nt in bad:
            t = rng.choice(g.terms)
            m = mode[nt.name]
            if m == "user":
                nt.alts.append(Alt([Item(T(t), ("name", "x", False))], action="named"))
            elif m == "unit":
                nt.alts.append(Alt([Item(T(t))]))
            elif m == "pick":
                nt.alts.append(Alt([Item(T(t))]))
            else:
                nt.alts = [Alt([Item(T(t))])]


def desugar_quiet(g):
    # pids may be unassigned at this point
    return desugar(g)


def _assign_pids(g):
    p = 0
    for nt in g.nts:
        for alt in nt.alts:
            if alt.action is not None:
                alt.pid = p
            p += 1


# ------------------------------------------------------------------------------------------
# sentences


def min_heights(cfg):
    INF = 10 ** 9
    h = {x: INF for x in cfg.nts}
    ph = {}
    ch = True
    while ch:
        ch = False
        for p in cfg.live:
            v = 1 + max([0] + [0 if s in cfg.terms else h[s] for s in p.rhs])
            if v < ph.get(p.idx, INF):
                ph[p.idx] = v
            if v < h[p.lhs]:
                h[p.lhs] = v
                ch = True
    return h, ph


def random_sentence(rng, cfg, start, depth=8, max_len=60, _cache={}):
    key = id(cfg)
    if key not in _cache or _cache[key][0] is not cfg:
        _cache.clear()
        _cache[key] = (cfg, min_heights(cfg))
    h, ph = _cache[key][1]
    out = []

    def go(x, d):
        if len(out) > max_len:
            raise OverflowError
        if x in cfg.terms:
            out.append(x)
            return
        ps = cfg.live_by_lhs.get(x, [])
        if not ps:
            raise OverflowError
        if d <= 0:
            m = min(ph[p.idx] for p in ps)
            ps = [p for p in ps if ph[p.idx] == m]
        p = rng.choice(ps)
        for s in p.rhs:
            go(s, d - 1)

    for _ in range(20):
        out = []
        try:
            go(start, depth)
            return out
        except OverflowError:
            depth = max(1, depth - 2)
    return None


def mutate(rng, sent, alphabet, nmut=1):
    s = list(sent)
    for _ in range(nmut):
        k = rng.random()
        if k < 0.34 and s:
            del s[rng.randrange(len(s))]
        elif k < 0.67:
            s.insert(rng.randint(0, len(s)), rng.choice(alphabet))
        elif s:
            s[rng.randrange(len(s))] = rng.choice(alphabet)
    return s


def all_strings(alphabet, maxlen):
    for L in range(maxlen + 1):
        for w in itertools.product(alphabet, repeat=L):
            yield list(w)


def inputs_for(rng, cfg, start, alphabet, exhaustive_budget=400, nrandom=40, nmut=60, max_len=40):
    """Mixed workload for one (grammar, start): exhaustive short strings, sentences, mutants,
    random strings.  Returns list of token-name lists (deduplicated)."""
    seen = set()
    out = []

    def add(w):
        t = tuple(w)
        if t not in seen:
            seen.add(t)
            out.append(list(w))

    L = 0
    total = 1
    while total + len(alphabet) ** (L + 1) <= exhaustive_budget and L < 7:
        L += 1
        total += len(alphabet) ** L
    for w in all_strings(alphabet, L):
        add(w)
    sents = []
    for i in range(nrandom):
        s = random_sentence(rng, cfg, start, depth=rng.randint(2, 9), max_len=max_len)
        if s is not None:
            sents.append(s)
            add(s)
    for i in range(nmut):
        if not sents:
            break
        s = rng.choice(sents)
        add(mutate(rng, s, alphabet, nmut=rng.choice([1, 1, 1, 2, 3])))
    # every proper prefix of some sentences: end of input in every state along the way
    for s in sents[:max(4, nrandom // 4)]:
        for k in range(len(s)):
            add(s[:k])
    for i in range(nrandom // 2):
        add([rng.choice(alphabet) for _ in range(rng.randint(0, 12))])
    return out, L


# ------------------------------------------------------------------------------------------
# profile `loc` (C06): sprinkle @L / @R into user-action alternatives


def add_locations(rng, g, p=0.6, in_groups=0.3):
    for nt in g.nts:
        if nt.ty != "V" or nt.params:
            continue
        for alt in nt.alts:
            if rng.random() > p:
                continue
            if alt.action is None:
                continue
            used = set()
            for it in alt.items:
                if it.bind and it.bind[0] == "name":
                    used.add(it.bind[1])
                elif it.bind and it.bind[0] == "pat":
                    from .gmodel import pat_names
                    used.update(pat_names(it.bind[1]))
            fresh = [n for n in ["l", "r", "m", "k", "j", "h"] if n not in used]
            if not alt.items:
                alt.items = [Item(Sym("L"), ("name", "l", False)), Item(Sym("R"), ("name", "r", False))]
                if rng.random() < 0.3:
                    alt.items.reverse()
                alt.action = "named"
                continue
            any_sel = any(it.bind and it.bind[0] == "sel" for it in alt.items)
            for _ in range(rng.choice([1, 1, 2, 3])):
                s = Sym(rng.choice("LR"))
                pos = rng.randint(0, len(alt.items))
                # mostly keep lookarounds away from each other: the value of @L next to @R is
                # not defined by the property statement (see DESIGN, C06 notes)
                for _try in range(4):
                    nb = [alt.items[q].sym.k for q in (pos - 1, pos) if 0 <= q < len(alt.items)]
                    if not any(x in ("L", "R") for x in nb) or rng.random() < 0.1:
                        break
                    pos = rng.randint(0, len(alt.items))
                if alt.action == "named":
                    if not fresh:
                        break
                    b = ("name", fresh.pop(0), False)
                elif alt.action in ("angle", "angle_multi"):
                    b = ("sel",) if any_sel and rng.random() < 0.7 else None
                    if alt.action == "angle_multi" and not any_sel and len(alt.items) >= 7:
                        break
                else:
                    b = None
                alt.items.insert(pos, Item(s, b))
            if rng.random() < in_groups:
                # put a location inside a group / in front of an optional
                for it in alt.items:
                    if it.sym.k == "grp" and rng.random() < 0.7 and not any(
                            x.bind and x.bind[0] in ("name", "pat") for x in it.sym.items) and not (it.bind and it.bind[0] == "pat"):
                        selg = any(x.bind and x.bind[0] == "sel" for x in it.sym.items)
                        it.sym.items.insert(rng.randint(0, len(it.sym.items)),
                                            Item(Sym(rng.choice("LR")), ("sel",) if selg else None))
    return g


def gen_loc(rng, **gk):
    """profile `loc`: core grammar + nullable real nonterminals whose (empty) span is observable,
    placed at the start, in the middle and at the end of alternatives, + @L/@R everywhere."""
    g = gen_core(rng, **gk)
    user = [nt for nt in g.nts if nt.ty == "V"]
    if user and rng.random() < 0.8:
        k = rng.choice([1, 1, 2])
        for j in range(k):
            name = "E%s" % ("" if j == 0 else str(j))
            alts = []
            style = rng.random()
            if style < 0.6:
                items = [Item(Sym("L"), ("name", "l", False)), Item(Sym("R"), ("name", "r", False))]
                if rng.random() < 0.3:
                    items.reverse()
                alts.append(Alt(items, action="named"))
            else:
                alts.append(Alt([], action="none_sel"))
            if rng.random() < 0.4:
                t = rng.choice(g.terms)
                alts.append(Alt([Item(Sym("L"), ("name", "l", False)), Item(T(t), ("name", "x", False)), Item(Sym("R"), ("name", "r", False))], action="named"))
            ent = NT(name, alts, ty="V", inline=False)
            g.nts.append(ent)
            # reference it from user alternatives: start / middle / end
            for _ in range(rng.choice([1, 2, 3])):
                nt = rng.choice(user)
                alt = rng.choice(nt.alts)
                if alt.action is None:
                    continue
                where = rng.choice(["start", "start", "end", "mid"])
                pos = 0 if where == "start" else (len(alt.items) if where == "end" else rng.randint(0, len(alt.items)))
                if alt.action == "named":
                    used = {it.bind[1] for it in alt.items if it.bind and it.bind[0] == "name"}
                    fresh = [n for n in ["e", "f", "g", "h"] if n not in used]
                    b = ("name", fresh[0], False) if fresh else None
                elif alt.action in ("angle", "angle_multi"):
                    any_sel = any(it.bind and it.bind[0] == "sel" for it in alt.items)
                    b = ("sel",) if any_sel else None
                    if alt.action == "angle_multi" and len(alt.items) >= 7:
                        continue
                else:
                    b = None
                if alt.action == "none_sel" and not alt.items:
                    alt.action = "named"
                    b = ("name", "e", False)
                alt.items.insert(pos, Item(N(name), b))
    add_locations(rng, g, p=0.7)
    if rng.random() < 0.5:
        # user #[inline] nonterminals: their (multi-symbol) spans feed @L/@R of the host
        inl = set(add_user_inline(rng, g))
        # observe the span of each inlined nonterminal: @L right before / @R right after it
        for nt in g.nts:
            if nt.ty != "V":
                continue
            for alt in nt.alts:
                if alt.action is None:
                    continue
                i = 0
                while i < len(alt.items):
                    it = alt.items[i]
                    if it.sym.k == "n" and it.sym.name in inl and rng.random() < 0.7:
                        used = {x.bind[1] for x in alt.items if x.bind and x.bind[0] == "name"}
                        fresh = [n for n in ["la", "lb", "lc", "ld", "le", "lf"] if n not in used]
                        any_sel = any(x.bind and x.bind[0] == "sel" for x in alt.items)

                        def mk(kind):
                            if alt.action == "named":
                                return Item(Sym(kind), ("name", fresh.pop(0), False)) if fresh else None
                            if alt.action == "angle_multi" and len(alt.items) >= 7:
                                return None
                            return Item(Sym(kind), ("sel",) if any_sel else None)
                        nxt = alt.items[i + 1].sym.k if i + 1 < len(alt.items) else None
                        prv = alt.items[i - 1].sym.k if i > 0 else None
                        if nxt not in ("L", "R") and rng.random() < 0.7:
                            x = mk("R")
                            if x:
                                alt.items.insert(i + 1, x)
                        if prv not in ("L", "R") and rng.random() < 0.5:
                            x = mk("L")
                            if x:
                                alt.items.insert(i, x)
                                i += 1
                    i += 1
    _assign_pids(g)
    return g


# ------------------------------------------------------------------------------------------
# user #[inline] (C14, C17)


def nt_refs(g):
    refs = {}
    for nt in g.nts:
        r = set()
        for alt in nt.alts:
            for it in alt.items:
                _refs_of(it.sym, r)
        refs[nt.name] = r
    return refs


def inlinable(g):
    """non-pub, non-macro nonterminals that do not reach themselves"""
    refs = nt_refs(g)

    def reaches_self(n):
        seen = set()
        st = list(refs.get(n, ()))
        while st:
            x = st.pop()
            if x == n:
                return True
            if x in seen:
                continue
            seen.add(x)
            st += list(refs.get(x, ()))
        return False
    used = set()
    for r in refs.values():
        used |= r
    return [nt.name for nt in g.nts if not nt.pub and not nt.params and nt.name in used and not reaches_self(nt.name)]


def add_user_inline(rng, g, subset=None):
    cand = inlinable(g)
    if subset is None:
        if not cand:
            return []
        subset = rng.sample(cand, rng.randint(1, min(3, len(cand))))
    for nt in g.nts:
        if nt.name in subset:
            nt.inline = True
    return subset
