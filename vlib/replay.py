"""Replay of pipeline witnesses: rebuilds the one grammar/config, reruns the one input, re-evaluates
the monitor of that property."""
import base64
import json
import pickle

from . import core, gmodel, pipeline, subject


def dump_model(g):
    return base64.b64encode(pickle.dumps(g)).decode()


def load_model(s):
    return pickle.loads(base64.b64decode(s))


def replay_pipeline(prop, path, monitor=None):
    w = json.load(open(path))["witness"]
    chk = core.Check(prop, "exploration", "quick", 0)
    chk.work = core.ensure_dir(chk.work + "-replay", wipe=True)
    g = load_model(w["model"])
    cfg = gmodel.desugar(g)
    subj = subject.Subject(chk.work)
    case = pipeline.Case(0, g, w["text"], cfg)
    m = subj.add("g0_" + w["config"], w["text"], cfg=w["config"], starts=g.starts())
    if m.status != "ok":
        print("replay: lalrpop now rejects the grammar (%s)" % m.status)
        print(m.stderr[-2000:])
        return 0
    ok = subj.build()
    if not ok:
        print("replay: generated code does not compile:\n" + list(subj.compile_failures.values())[0])
        return 0
    case.mods[w["config"]] = m.name
    e = pipeline.Exec(case, w["start"], w["input"], w["gap"], w["config"], shape=w.get("shape", "T"),
                      err_at=w.get("err_at"), fails=[tuple(f) for f in w["fails"]] if w.get("fails") else None)
    res = pipeline.run_execs(subj, [e])
    rec = res.get(0)
    print("observed:", json.dumps(rec))
    orc = pipeline.Oracle(case, e.start, e.toks, e.gap, fails=e.fails)
    (monitor or pipeline.monitor_basic)(chk, {prop}, case, e, rec, orc)
    if chk.violations:
        for v in chk.violations:
            print("VIOLATION property=%s replay=%s" % (prop, path))
            print("  " + str(v["summary"])[:600])
        return 1
    print("replay: no violation reproduced")
    return 0
