"""Textbook canonical LR(1) item-set construction and LALR(1) by merging equal cores; used as
the oracle of C03.  Grammar: dict nt -> list of RHS (lists of symbols); terminals = set."""

EOF_T = "$"


class TooBig(Exception):
    pass


def first_sets(rules, terms):
    nullable = set()
    first = {x: set() for x in rules}
    ch = True
    while ch:
        ch = False
        for x, alts in rules.items():
            for rhs in alts:
                allnull = True
                for s in rhs:
                    if s in terms:
                        if s not in first[x]:
                            first[x].add(s)
                            ch = True
                        allnull = False
                        break
                    add = first.get(s, set()) - first[x]
                    if add:
                        first[x] |= add
                        ch = True
                    if s not in nullable:
                        allnull = False
                        break
                if allnull and x not in nullable:
                    nullable.add(x)
                    ch = True
    return first, nullable


def first_of_seq(seq, la, first, nullable, terms):
    out = set()
    for s in seq:
        if s in terms:
            out.add(s)
            return out
        out |= first.get(s, set())
        if s not in nullable:
            return out
    return out | la


def build(rules, terms, start, max_states=4000):
    """-> list of states; state = dict (prod_index, dot) -> frozenset(lookaheads);
    prods list [(lhs, rhs)], prod 0 = augmented."""
    prods = [("$S'", (start,))]
    by_lhs = {}
    for x, alts in rules.items():
        for rhs in alts:
            by_lhs.setdefault(x, []).append(len(prods))
            prods.append((x, tuple(rhs)))
    first, nullable = first_sets(rules, terms)

    def closure(kernel):
        items = {k: set(v) for k, v in kernel.items()}
        work = list(items)
        while work:
            (p, d) = work.pop()
            rhs = prods[p][1]
            if d >= len(rhs):
                continue
            B = rhs[d]
            if B in terms or B not in by_lhs:
                continue
            la = first_of_seq(rhs[d + 1:], items[(p, d)], first, nullable, terms)
            for q in by_lhs[B]:
                cur = items.get((q, 0))
                if cur is None:
                    items[(q, 0)] = set(la)
                    work.append((q, 0))
                elif not la <= cur:
                    cur |= la
                    work.append((q, 0))
            # lookaheads of (p,d) may grow later: re-processing is triggered by whoever grows it
        return items

    def full_closure(kernel):
        # iterate to a fixpoint (propagation through chains of nonterminals)
        items = closure(kernel)
        changed = True
        while changed:
            changed = False
            for (p, d) in list(items):
                rhs = prods[p][1]
                if d >= len(rhs):
                    continue
                B = rhs[d]
                if B in terms or B not in by_lhs:
                    continue
                la = first_of_seq(rhs[d + 1:], items[(p, d)], first, nullable, terms)
                for q in by_lhs[B]:
                    cur = items.setdefault((q, 0), set())
                    if not la <= cur:
                        cur |= la
                        changed = True
        return items

    def freeze(items):
        return frozenset((k, frozenset(v)) for k, v in items.items())

    start_items = full_closure({(0, 0): {EOF_T}})
    states = [start_items]
    index = {freeze(start_items): 0}
    trans = {}
    work = [0]
    while work:
        i = work.pop()
        st = states[i]
        by_sym = {}
        for (p, d), la in st.items():
            rhs = prods[p][1]
            if d < len(rhs):
                by_sym.setdefault(rhs[d], {})[(p, d + 1)] = set(la)
        for X, kernel in by_sym.items():
            items = full_closure(kernel)
            f = freeze(items)
            j = index.get(f)
            if j is None:
                j = len(states)
                if j >= max_states:
                    raise TooBig()
                index[f] = j
                states.append(items)
                work.append(j)
            trans[(i, X)] = j
    return prods, states, trans


def conflicts_in(prods, states, terms):
    """list of (state index, terminal, actions) with more than one action"""
    out = []
    for i, st in enumerate(states):
        acts = {}
        for (p, d), la in st.items():
            rhs = prods[p][1]
            if d < len(rhs):
                if rhs[d] in terms:
                    acts.setdefault(rhs[d], set()).add("shift")
            else:
                for a in la:
                    acts.setdefault(a, set()).add(("reduce", p))
        for a, s in acts.items():
            if len(s) > 1:
                out.append((i, a, sorted(map(str, s))))
    return out


def merge_lalr(prods, states):
    groups = {}
    for st in states:
        core = frozenset(st.keys())
        g = groups.setdefault(core, {})
        for k, la in st.items():
            g.setdefault(k, set()).update(la)
    return list(groups.values())


def analyse(rules, terms, start, max_states=4000):
    """-> dict(lr1=bool conflict, lalr=bool conflict, nstates=int)"""
    prods, states, trans = build(rules, terms, start, max_states)
    c1 = conflicts_in(prods, states, terms)
    merged = merge_lalr(prods, states)
    c2 = conflicts_in(prods, merged, terms)
    return {"lr1": bool(c1), "lalr": bool(c2), "nstates": len(states), "nlalr": len(merged),
            "lr1_conflicts": c1[:3], "lalr_conflicts": c2[:3]}


def selftest():
    T = set("abcde+*()n=")
    # expression grammar: LR(1), LALR(1)
    r = analyse({"E": [["E", "+", "T"], ["T"]], "T": [["T", "*", "F"], ["F"]], "F": [["(", "E", ")"], ["n"]]}, T, "E")
    assert not r["lr1"] and not r["lalr"], r
    # ambiguous
    r = analyse({"E": [["E", "+", "E"], ["n"]]}, T, "E")
    assert r["lr1"] and r["lalr"], r
    # LR(1) but not LALR(1)
    r = analyse({"S": [["a", "A", "c"], ["a", "B", "d"], ["b", "B", "c"], ["b", "A", "d"]], "A": [["e"]], "B": [["e"]]}, T, "S")
    assert not r["lr1"] and r["lalr"], r
    # LALR(1) but not SLR(1)  (dragon book 4.20 style)
    r = analyse({"S": [["L", "=", "R"], ["R"]], "L": [["*", "R"], ["n"]], "R": [["L"]]}, T, "S")
    assert not r["lr1"] and not r["lalr"], r
    # not LR(1): needs 2 tokens of lookahead
    r = analyse({"S": [["A", "a", "b"], ["B", "a", "c"]], "A": [["e"]], "B": [["e"]]}, T, "S")
    assert r["lr1"], r
    # unit cycle
    r = analyse({"S": [["S"], ["a"]]}, T, "S")
    assert r["lr1"], r
    # nullable
    r = analyse({"S": [["A", "B", "c"]], "A": [["a"], []], "B": [["b"], []]}, T, "S")
    assert not r["lr1"], r
    return True
