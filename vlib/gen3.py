"""Lane-table stress grammars: LR(1) but (usually) not LALR(1), with several left contexts,
several groups of nonterminals that have identical bodies, bodies sharing prefixes, and extra
short paths into the same LR(0) states.  The lane-table construction has to split states per
context; the language is finite, so every sentence can be run."""
from .gmodel import Alt, Grammar, Item, N, NT, T
from . import gen


def gen_lane_stress(rng, actions=True):
    nctx = rng.choice([2, 2, 3])
    letters = list("abcdefghijklmnopqrstuvwxyz")
    rng.shuffle(letters)
    take = lambda: letters.pop()
    mid = [take()] if rng.random() < 0.6 else []
    ctxs = [[take()] + (mid if rng.random() < 0.8 else []) for _ in range(nctx)]
    if rng.random() < 0.3:
        ctxs[rng.randrange(nctx)].append(take())
    # bodies: share a first token; lengths 1..3
    w = take()
    e = take()
    bodies = [[w], [w, e], [w, e, e] if rng.random() < 0.5 else [w, take()]]
    ngroups = rng.choice([1, 2, 2, 3])
    groups = []
    names = iter(["X", "Y", "Z", "P", "Q", "R", "U", "V", "W"])
    for gi in range(ngroups):
        body = bodies[gi % len(bodies)] if rng.random() < 0.8 else rng.choice(bodies)
        m = rng.choice([2, 2, 3])
        groups.append(([next(names) for _ in range(m)], body))
    terms = set()
    prods = []
    for (twins, body) in groups:
        m = len(twins)
        follow = [take() for _ in range(m)]
        base = list(range(m))
        for ci, ctx in enumerate(ctxs):
            perm = base[:]
            if ci > 0 or rng.random() < 0.3:
                rng.shuffle(perm)
            same_follow = rng.random() < 0.25   # contexts where the twins are told apart only by position -> may conflict
            for j, n in enumerate(twins):
                if rng.random() < 0.12:
                    continue
                f = follow[perm[j]]
                prods.append(ctx + [n] + [f])
        # a short path without context (reaches the shared LR(0) states earlier)
        if rng.random() < 0.7:
            perm = base[:]
            rng.shuffle(perm)
            for j, n in enumerate(twins):
                if rng.random() < 0.8:
                    prods.append([n, follow[perm[j]]])
    rules = {"S": prods}
    for (twins, body) in groups:
        for n in twins:
            rules[n] = [list(body)]
    allnames = set(rules)
    for alts in rules.values():
        for alt in alts:
            for s in alt:
                if s not in allnames:
                    terms.add(s)
    terms = sorted(terms)
    if len(terms) > 22:
        return gen_lane_stress(rng, actions)
    nts = []
    for n, alts in rules.items():
        uniq = []
        for a in alts:
            if a not in uniq:
                uniq.append(a)
        nt = NT(n, [Alt([Item(T(x) if x in terms else N(x)) for x in a]) for a in uniq], pub=(n == "S"))
        nts.append(nt)
    g = Grammar(nts, terms)
    mode = {n.name: ("user" if actions else "unit") for n in g.nts}
    gen._decorate(rng, g, mode, 0.0, 0.0)
    gen._assign_pids(g)
    g.mode = mode
    g.finite = True
    return g


def all_sentences(cfg, start, limit=400, maxlen=12):
    """all sentences of a (finite, small) language by leftmost expansion; None if over limit"""
    out = set()
    stack = [((start,), ())]
    steps = 0
    while stack:
        form, done = stack.pop()
        steps += 1
        if steps > 200000 or len(out) > limit:
            return None
        if len(done) > maxlen:
            return None
        if not form:
            out.add(done)
            continue
        x, rest = form[0], form[1:]
        if x in cfg.terms:
            stack.append((rest, done + (x,)))
        else:
            for p in cfg.live_by_lhs.get(x, ()):
                stack.append((tuple(p.rhs) + rest, done))
    return [list(s) for s in sorted(out)]


def gen_prefix_overlap(rng, actions=True):
    """alternatives that share a long terminal prefix but cut it into nested nonterminals at
    different points, so LR states mix items whose recognised prefixes have different lengths
    (recursive-ascent states then carry optional + fixed stack slots)."""
    letters = list("abcdefghijklmnopqrstuvw")
    rng.shuffle(letters)
    L = rng.randint(3, 5)
    w = [letters.pop() for _ in range(L)]
    if rng.random() < 0.3:
        w[rng.randrange(1, L)] = w[0]
    rules = {"S": []}
    names = iter(["A", "B", "C", "D", "E", "F", "G", "H", "I", "J", "K", "M"])
    nalts = rng.randint(2, 4)
    for i in range(nalts):
        d = rng.randint(1, L) if i else L          # follow w up to d, then diverge
        tail = w[:d] + [letters.pop()]
        if rng.random() < 0.4:
            tail.append(letters.pop() if rng.random() < 0.5 else rng.choice(w))
        # cut tail into nested nonterminals
        cuts = sorted(rng.sample(range(1, len(tail)), rng.randint(0, min(3, len(tail) - 1)))) if len(tail) > 1 else []
        cur = "S"
        prev = 0
        for c in cuts:
            n = next(names)
            rules.setdefault(cur, []).append(tail[prev:c] + [n]) if cur == "S" else rules.__setitem__(cur, [tail[prev:c] + [n]])
            cur = n
            prev = c
        if cur == "S":
            rules["S"].append(tail[prev:])
        else:
            rules[cur] = [tail[prev:]]
    allnames = set(rules)
    terms = sorted({s for alts in rules.values() for a in alts for s in a if s not in allnames})
    nts = []
    for n, alts in rules.items():
        uniq = []
        for a in alts:
            if a not in uniq:
                uniq.append(a)
        nts.append(NT(n, [Alt([Item(T(x) if x in terms else N(x)) for x in a]) for a in uniq], pub=(n == "S")))
    g = Grammar(nts, terms)
    mode = {n.name: (rng.choice(["user", "user", "unit"]) if actions else "unit") for n in g.nts}
    gen._decorate(rng, g, mode, 0.0, 0.0)
    gen._assign_pids(g)
    g.mode = mode
    g.finite = True
    return g


def gen_prefix_overlap_loc(rng):
    """prefix-overlap grammar + nullable tails + @L/@R everywhere: empty reductions at end of
    input in recursive-ascent states whose stack slots are optional"""
    g = gen_prefix_overlap(rng, actions=True)
    for nt in g.nts:
        if nt.ty != "V":
            # make every nonterminal observable
            nt.ty = "V"
            nt.unit = False
            for alt in nt.alts:
                for it in alt.items:
                    it.bind = None
                alt.action = "none_sel"
    opt_name = "Opt"
    t = rng.choice(g.terms)
    extra = "z"
    if extra not in g.terms:
        g.terms.append(extra)
    oalts = [Alt([], action="none_sel"), Alt([Item(T(extra), ("name", "x", False))], action="named")]
    if rng.random() < 0.8:
        oalts[0] = Alt([Item(gen.Sym("L"), ("name", "l", False)), Item(gen.Sym("R"), ("name", "r", False))], action="named")
    g.nts.append(NT(opt_name, oalts, ty="V"))
    for nt in g.nts[:-1]:
        for alt in nt.alts:
            if rng.random() < 0.5 and alt.action in ("named", "none_sel", "angle"):
                used = {x.bind[1] for x in alt.items if x.bind and x.bind[0] == "name"}
                b = None
                if alt.action == "named":
                    fresh = [n for n in ["o1", "o2"] if n not in used]
                    b = ("name", fresh[0], False)
                elif alt.action == "angle" and any(x.bind and x.bind[0] == "sel" for x in alt.items):
                    b = ("sel",)
                elif alt.action == "angle" and any(x.bind and x.bind[0] == "name" for x in alt.items):
                    b = ("name", "o1", False)
                alt.items.append(Item(N(opt_name), b))
    # a branch that stops early: shared prefix, then the nullable tail (empty reduction in a
    # state that also holds longer items)
    s_nt = g.nts[0]
    for _ in range(rng.choice([1, 1, 2])):
        base = rng.choice(s_nt.alts)
        pre = []
        for it in base.items:
            if it.sym.k != "t":
                break
            pre.append(it.sym)
        if not pre:
            continue
        # usually stop exactly where a nested nonterminal begins in the base alternative
        d = len(pre) if (len(pre) < len(base.items) and rng.random() < 0.75) else rng.randint(1, len(pre))
        items = [Item(x, None) for x in pre[:d]] + [Item(N(opt_name), ("name", "o1", False)), Item(gen.Sym("R"), ("name", "re", False))]
        if rng.random() < 0.5:
            items.insert(0, Item(gen.Sym("L"), ("name", "ls", False)))
        s_nt.alts.append(Alt(items, action="named"))
    gen.add_locations(rng, g, p=0.8)
    gen._assign_pids(g)
    return g


def add_inline_pair(rng, g):
    """a nonterminal with one fallible and one infallible alternative, used twice in one
    alternative (C14: order of inlined actions of the SAME nonterminal, mixed fallibility)"""
    p, q = "p", "q"
    for t in (p, q):
        if t not in g.terms:
            g.terms.append(t)
    a1 = Alt([Item(T(p), ("name", "x", False))], action="named", fallible=True)
    a2 = Alt([Item(T(q), ("name", "x", False))], action="named", fallible=False)
    alts = [a1, a2]
    rng.shuffle(alts)
    if rng.random() < 0.3:
        alts.append(Alt([Item(T(p), ("name", "x", False)), Item(T(q), ("name", "y", False))], action="named", fallible=rng.random() < 0.5))
    name = "I"
    g.nts.append(NT(name, alts, ty="V"))
    hosts = [nt for nt in g.nts if nt.ty == "V" and nt.name != name]
    if not hosts:
        gen._assign_pids(g)
        return g
    host = rng.choice(hosts)
    items = [Item(N(name), ("name", "i1", False))]
    if rng.random() < 0.4:
        items.append(Item(T(rng.choice(g.terms[:-2] or g.terms)), None))
    items.append(Item(N(name), ("name", "i2", False)))
    if rng.random() < 0.4:
        items.append(Item(N(name), ("name", "i3", False)))
    lead = T(rng.choice(g.terms))
    if rng.random() < 0.7:
        items.insert(0, Item(lead, None))
    host.alts.append(Alt(items, action="named", fallible=rng.random() < 0.3))
    gen._assign_pids(g)
    return g


def gen_nullable_tails(rng, actions=True):
    """productions whose tail is a user-written nullable nonterminal, inside hosts that are
    followed by different terminals in different places (and inside left-recursive lists): the
    lookahead of the host reaches the items of the tail-less prefix only through the nullable
    tail, and arrives in several instalments during LR(1) closure."""
    letters = list("abcdefghijklmnopqrstuvw")
    rng.shuffle(letters)
    take = lambda: letters.pop()
    rules = {}
    # nullable tails
    ntails = rng.randint(1, 3)
    tails = []
    for i in range(ntails):
        n = "T%d" % i
        alts = [[]]
        alts.append([take()])
        if rng.random() < 0.3:
            alts.append([take(), take()])
        rng.shuffle(alts)
        rules[n] = alts
        tails.append(n)
    # core C
    c = take()
    rules["C"] = [[c]] if rng.random() < 0.6 else [[c], ["C", take()]]
    # host B = C tail+  (1..2 nullable tails)
    k = rng.randint(1, min(2, ntails))
    rules["B"] = [["C"] + rng.sample(tails, k)]
    if rng.random() < 0.3:
        rules["B"].append([take(), "B"])
    shape = rng.random()
    if shape < 0.5:
        # B followed by different terminals in different alternatives
        fol = [take() for _ in range(rng.randint(2, 3))]
        rules["S"] = [["B", f] for f in fol]
        if rng.random() < 0.4:
            rules["S"].append([take(), "B", rng.choice(fol)])
        if rng.random() < 0.3:
            rules["S"].append(["B"])
    elif shape < 0.85:
        # left-recursive list of hosts: the follower of B is FIRST(B) and end of input
        rules["S"] = [["S", "B"], ["B"]]
        if rng.random() < 0.4:
            rules["S"] = [["S", take(), "B"], ["S", "B"], ["B"]]
    else:
        rules["S"] = [["B", "S"], []] if rng.random() < 0.5 else [[take(), "S", "B"], ["B"]]
    order = ["S", "B", "C"] + tails
    allnames = set(rules)
    terms = sorted({s for alts in rules.values() for a in alts for s in a if s not in allnames})
    nts = []
    for n in order:
        uniq = []
        for a in rules[n]:
            if a not in uniq:
                uniq.append(a)
        nts.append(NT(n, [Alt([Item(T(x) if x in terms else N(x)) for x in a]) for a in uniq], pub=(n == "S")))
    g = Grammar(nts, terms)
    mode = {n.name: (rng.choice(["user", "user", "unit"]) if actions else "unit") for n in g.nts}
    gen._decorate(rng, g, mode, 0.0, 0.0)
    gen._assign_pids(g)
    g.mode = mode
    return g


def add_same_action_twins(rng, g):
    """two alternatives with the very same action text and symbol types but the bound symbols
    in different positions (user action sharing one production id, and default `<>` selections)"""
    p, q = "p", "q"
    for t in (p, q):
        if t not in g.terms:
            g.terms.append(t)
    base = [t for t in g.terms if t not in (p, q)]
    hosts = [nt for nt in g.nts if nt.ty == "V" and not nt.params]
    if hosts and rng.random() < 0.8:
        host = rng.choice(hosts)
        x, y, m = rng.choice(base), rng.choice(base), rng.choice(base)
        a1 = Alt([Item(T(p)), Item(T(x), ("name", "a", False)), Item(T(m)), Item(T(y), ("name", "b", False))], action="named")
        a2 = Alt([Item(T(q)), Item(T(x), ("name", "b", False)), Item(T(m)), Item(T(y), ("name", "a", False))], action="named")
        a1.order = ["a", "b"]
        a2.order = ["a", "b"]
        if rng.random() < 0.5:
            a1.fallible = a2.fallible = False
        host.alts += [a1, a2]
        gen._assign_pids(g)
        a2.pid = a1.pid          # identical action text: the same production id on purpose
    if rng.random() < 0.7:
        # default actions: `<>` selecting different positions, same types
        x, y = rng.choice(base), rng.choice(base)
        name = "Pk"
        if not g.nt(name):
            alts = [Alt([Item(T(p)), Item(T(x), ("sel",)), Item(T(y))]), Alt([Item(T(q)), Item(T(x)), Item(T(y), ("sel",))])]
            if rng.random() < 0.5:
                alts.reverse()
            g.nts.append(NT(name, alts, pub=True))
            pid_keep = {id(a): a.pid for nt in g.nts for a in nt.alts}
            gen._assign_pids(g)
            for nt in g.nts:
                for a in nt.alts:
                    if getattr(a, "order", None) and id(a) in pid_keep and pid_keep[id(a)] is not None:
                        a.pid = pid_keep[id(a)]
    return g
