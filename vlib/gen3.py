"""Lane-table stress grammars: LR(1) but (usually) not LALR(1), with several left contexts,
several groups of nonterminals that have identical bodies, bodies sharing prefixes, and extra
short paths into the same LR(0) states.  The lane-table construction has to split states per
context; the language is finite, so every sentence can be run."""
from .gmodel import Alt, Grammar, Item, N, NT, T
from . import gen


def gen_lane_stress(rng, actions=True):
    nctx = rng.choice([2, 2, 3])
    letters = list("abcdefghijklmnopqrstuvwxyz")
    rng.shuffle(letters)
    take = lambda: letters.pop()
    mid = [take()] if rng.random() < 0.6 else []
    ctxs = [[take()] + (mid if rng.random() < 0.8 else []) for _ in range(nctx)]
    if rng.random() < 0.3:
        ctxs[rng.randrange(nctx)].append(take())
    # bodies: share a first token; lengths 1..3
    w = take()
    e = take()
    bodies = [[w], [w, e], [w, e, e] if rng.random() < 0.5 else [w, take()]]
    ngroups = rng.choice([1, 2, 2, 3])
    groups = []
    names = iter(["X", "Y", "Z", "P", "Q", "R", "U", "V", "W"])
    for gi in range(ngroups):
        body = bodies[gi % len(bodies)] if rng.random() < 0.8 else rng.choice(bodies)
        m = rng.choice([2, 2, 3])
        groups.append(([next(names) for _ in range(m)], body))
    terms = set()
    prods = []
    for (twins, body) in groups:
        m = len(twins)
        follow = [take() for _ in range(m)]
        base = list(range(m))
        for ci, ctx in enumerate(ctxs):
            perm = base[:]
            if ci > 0 or rng.random() < 0.3:
                rng.shuffle(perm)
            same_follow = rng.random() < 0.25   # contexts where the twins are told apart only by position -> may conflict
            for j, n in enumerate(twins):
                if rng.random() < 0.12:
                    continue
                f = follow[perm[j]]
                prods.append(ctx + [n] + [f])
        # a short path without context (reaches the shared LR(0) states earlier)
        if rng.random() < 0.7:
            perm = base[:]
            rng.shuffle(perm)
            for j, n in enumerate(twins):
                if rng.random() < 0.8:
                    prods.append([n, follow[perm[j]]])
    rules = {"S": prods}
    for (twins, body) in groups:
        for n in twins:
            rules[n] = [list(body)]
    allnames = set(rules)
    for alts in rules.values():
        for alt in alts:
            for s in alt:
                if s not in allnames:
                    terms.add(s)
    terms = sorted(terms)
    if len(terms) > 22:
        return gen_lane_stress(rng, actions)
    nts = []
    for n, alts in rules.items():
        uniq = []
        for a in alts:
            if a not in uniq:
                uniq.append(a)
        nt = NT(n, [Alt([Item(T(x) if x in terms else N(x)) for x in a]) for a in uniq], pub=(n == "S"))
        nts.append(nt)
    g = Grammar(nts, terms)
    mode = {n.name: ("user" if actions else "unit") for n in g.nts}
    gen._decorate(rng, g, mode, 0.0, 0.0)
    gen._assign_pids(g)
    g.mode = mode
    g.finite = True
    return g


def all_sentences(cfg, start, limit=400, maxlen=12):
    """all sentences of a (finite, small) language by leftmost expansion; None if over limit"""
    out = set()
    stack = [((start,), ())]
    steps = 0
    while stack:
        form, done = stack.pop()
        steps += 1
        if steps > 200000 or len(out) > limit:
            return None
        if len(done) > maxlen:
            return None
        if not form:
            out.add(done)
            continue
        x, rest = form[0], form[1:]
        if x in cfg.terms:
            stack.append((rest, done + (x,)))
        else:
            for p in cfg.live_by_lhs.get(x, ()):
                stack.append((tuple(p.rhs) + rest, done))
    return [list(s) for s in sorted(out)]


def gen_prefix_overlap(rng, actions=True):
    """alternatives that share a long terminal prefix but cut it into nested nonterminals at
    different points, so LR states mix items whose recognised prefixes have different lengths
    (recursive-ascent states then carry optional + fixed stack slots)."""
    letters = list("abcdefghijklmnopqrstuvw")
    rng.shuffle(letters)
    L = rng.randint(3, 5)
    w = [letters.pop() for _ in range(L)]
    if rng.random() < 0.3:
        w[rng.randrange(1, L)] = w[0]
    rules = {"S": []}
    names = iter(["A", "B", "C", "D", "E", "F", "G", "H", "I", "J", "K", "M"])
    nalts = rng.randint(2, 4)
    for i in range(nalts):
        d = rng.randint(1, L) if i else L          # follow w up to d, then diverge
        tail = w[:d] + [letters.pop()]
        if rng.random() < 0.4:
            tail.append(letters.pop() if rng.random() < 0.5 else rng.choice(w))
        # cut tail into nested nonterminals
        cuts = sorted(rng.sample(range(1, len(tail)), rng.randint(0, min(3, len(tail) - 1)))) if len(tail) > 1 else []
        cur = "S"
        prev = 0
        for c in cuts:
            n = next(names)
            rules.setdefault(cur, []).append(tail[prev:c] + [n]) if cur == "S" else rules.__setitem__(cur, [tail[prev:c] + [n]])
            cur = n
            prev = c
        if cur == "S":
            rules["S"].append(tail[prev:])
        else:
            rules[cur] = [tail[prev:]]
    allnames = set(rules)
    terms = sorted({s for alts in rules.values() for a in alts for s in a if s not in allnames})
    nts = []
    for n, alts in rules.items():
        uniq = []
        for a in alts:
            if a not in uniq:
                uniq.append(a)
        nts.append(NT(n, [Alt([Item(T(x) if x in terms else N(x)) for x in a]) for a in uniq], pub=(n == "S")))
    g = Grammar(nts, terms)
    mode = {n.name: (rng.choice(["user", "user", "unit"]) if actions else "unit") for n in g.nts}
    gen._decorate(rng, g, mode, 0.0, 0.0)
    gen._assign_pids(g)
    g.mode = mode
    g.finite = True
    return g
